(* Proofs/ParseSpec.v — the parsers the cursor-style reader runs on a question / a record header
   compute exactly the items of the code-blind linear pass (Spec/LinearPass.v: question_at,
   record_at, built on the executable RFC expander): same acceptance, same offsets, same fields. *)
From Coq Require Import ZArith.
From RsdnsModel Require Import Base GenConst GenCursor GenLabels GenNames GenTypes GenSpec Cursor Names Labels Header Tracker RData Reader.
From RsdnsModel.Spec Require Import WireName LinearPass.
From RsdnsModel.Proofs Require Import CursorSafe ListN LabelsTotal LabelsSound RoundTrip LabelsComplete SpecExec RecordRT.
From Coq Require Import ZifyBool ZifyN ZifyNat.
Open Scope N_scope.

Section P.
  Variable msg : list byte.

  (* a cursor over the whole message *)
  Definition whole (c : cursor) : Prop := lim c = lenN msg /\ orig c = None.
  Lemma whole_cwf c : whole c -> cwf msg c.
  Proof. intros [H1 H2]. unfold cwf. rewrite H1, H2. split; [lia|exact I]. Qed.
  Lemma whole_vis c : whole c -> vis msg c = msg.
  Proof. intros [H1 _]. unfold vis. rewrite H1. unfold lenN. rewrite Nat2N.id. apply firstn_all. Qed.

  (* skipping accepts every name with a legal expansion and valid labels, whatever its length *)
  Lemma skip_loop_complete : forall V q0 hops p ls, expands V q0 hops p ls ->
    forall st fuel, V = vis msg (lc st) -> pos (lc st) = p -> q0_of st = q0 -> n_ptr st = hops -> linv msg st ->
    Forall (fun l => label_ok (snd l) = true) ls -> (N.to_nat (lmeasure st) < fuel)%nat ->
    exists mp, skip_name_loop msg fuel st = Ok mp /\
      (max_pos st = 0 -> resume_at V p mp) /\ (max_pos st <> 0 -> mp = max_pos st).
  Proof.
    induction 1 as [q0 hops p Hg|q0 hops p b ls Hg Hb Hle Hex IH|q0 hops p b1 b2 ls Hg1 H192 Hg2 tgt q Hlt Hh Hex IH];
      intros st fuel HV Hp Hq Hn Hi Hok Hf; (destruct fuel as [|f]; [lia|]); cbn [skip_name_loop]; subst V p q0 hops.
    - rewrite (step_root msg st Hi Hg). cbn [bind]. eexists. split; [reflexivity|].
      split; intro Hz.
      + replace (max_pos st =? 0) with true by lia. constructor. exact Hg.
      + replace (max_pos st =? 0) with false by lia. reflexivity.
    - pose proof Hi as (Hc & _ & _).
      assert (Hle' : pos (lc st) + 1 + bN b <= lim (lc st)) by (rewrite (vis_len msg _ Hc) in Hle; exact Hle).
      pose proof (step_label msg st b Hi Hg Hb Hle') as Es. rewrite Es. cbn [bind].
      destruct (label_step_label msg _ _ _ _ Hi Es) as (Hi' & Hlt & Hlim & _ & _ & Hmp & Hnp & Ho).
      assert (Hsub : subN (vis msg (lc st)) (pos (lc st) + 1) (bN b) = subN msg (pos (lc st) + 1) (bN b))
        by (unfold vis; apply subN_firstn; lia).
      rewrite Hsub in *. inversion Hok as [|? ? Hl Hok']; subst. cbn [snd] in Hl.
      apply check_label_ok in Hl. rewrite Hl. cbn [bind].
      set (st' := mkL (c_set_pos (lc st) (pos (lc st) + 1 + bN b)) (max_pos st) (n_ptr st)) in *.
      assert (A1 : vis msg (lc st) = vis msg (lc st')) by (unfold vis, st'; cbn [lc lim c_set_pos]; reflexivity).
      destruct (IH st' f A1 (@Logic.eq_refl _ _) (@Logic.eq_refl _ _) (@Logic.eq_refl _ _) Hi' Hok' ltac:(lia)) as (mp & Er & R1 & R2).
      exists mp. split; [exact Er|]. split; [|exact R2]. intro Hz. eapply ra_label; [exact Hg|exact Hb|apply R1; exact Hz].
    - pose proof Hi as (Hc & Hm & _).
      assert (Hmpq : (if max_pos st =? 0 then pos (lc st) + 2 else max_pos st) = q + 2).
      { subst q. unfold q0_of. destruct (max_pos st =? 0) eqn:E; [reflexivity|]. destruct Hm as [Hm|Hm]; lia. }
      assert (Hstep := step_ptr msg st b1 b2 Hi Hg1 H192 Hg2). cbv zeta in Hstep. fold tgt in Hstep.
      rewrite Hmpq in Hstep. specialize (Hstep ltac:(lia) ltac:(lia)). rewrite Hstep. cbn [bind].
      destruct (label_step_jump msg _ _ Hi Hstep) as (Hi' & Hlt' & Hlim & Ho & _).
      set (st' := mkL (c_set_pos (lc st) tgt) (q + 2) (n_ptr st + 1)) in *.
      assert (A1 : vis msg (lc st) = vis msg (lc st')) by (unfold vis, st'; cbn [lc lim c_set_pos]; reflexivity).
      assert (A3 : q0_of st' = Some q) by (unfold q0_of; cbn [max_pos st']; destruct (q + 2 =? 0) eqn:E; [lia|]; f_equal; lia).
      destruct (IH st' f A1 (@Logic.eq_refl _ _) A3 (@Logic.eq_refl _ _) Hi' Hok ltac:(lia)) as (mp & Er & R1 & R2).
      exists mp. split; [exact Er|]. assert (Hnz : max_pos st' <> 0) by (cbn; lia). specialize (R2 Hnz). cbn [max_pos st'] in R2.
      split; intro Hz.
      + rewrite R2. replace (q + 2) with (pos (lc st) + 2) by (rewrite <- Hmpq; replace (max_pos st =? 0) with true by lia; reflexivity).
        eapply ra_ptr; [exact Hg1|exact H192].
      + rewrite R2, <- Hmpq. replace (max_pos st =? 0) with false by lia. reflexivity.
  Qed.

  (* skip_name over the whole message = the spec's name_at *)
  Theorem skip_is_name_at c : whole c ->
    match name_at msg (pos c) with
    | Some (r, _) => skip_name msg c = Ok (c_set_pos c r)
    | None => exists e, skip_name msg c = Err e
    end.
  Proof.
    intro Hw. pose proof (whole_cwf c Hw) as Hc. pose proof (whole_vis c Hw) as Hv.
    unfold name_at. destruct (spec_name msg (pos c)) as [ls r|w] eqn:Es.
    - apply spec_name_accept_iff in Es. destruct Es as [Hex Hr].
      destruct (forallb (fun l => label_ok (snd l)) ls) eqn:Ef.
      + assert (Hok : Forall (fun l => label_ok (snd l) = true) ls) by (apply Forall_forall; rewrite forallb_forall in Ef; exact Ef).
        rewrite <- Hv in Hex, Hr.
        destruct (skip_loop_complete _ _ _ _ _ Hex (mkL c 0 0) (name_fuel c) (@Logic.eq_refl _ _) (@Logic.eq_refl _ _) (@Logic.eq_refl _ _) (@Logic.eq_refl _ _)
                    (linv_init msg c Hc) Hok (lmeasure_fuel msg c Hc)) as (mp & Em & R1 & _).
        specialize (R1 (@Logic.eq_refl _ _)). rewrite Hv in R1, Hr.
        assert (mp = r) by (exact (resume_at_det msg _ _ R1 _ Hr)). subst mp.
        unfold skip_name. rewrite Em. cbn [bind].
        assert (Hge : pos c <= r). { clear - Hr. induction Hr; lia. }
        destruct (pos c <=? r) eqn:E; [reflexivity|lia].
      + (* a label violates the rules: skipping fails (soundness of skip) *)
        pose proof (skip_name_defined msg c Hc) as D.
        destruct (skip_name msg c) as [c'| | | | |] eqn:E; cbn in D; try tauto; [|eauto].
        exfalso. destruct (skip_name_sound msg c c' Hc E) as (ls' & Hex' & Hall & _). rewrite Hv in Hex'.
        pose proof (expands_det' _ _ _ _ _ Hex _ _ _ Hex'). subst ls'.
        assert (forallb (fun l => label_ok (snd l)) ls = true) by (apply forallb_forall; rewrite Forall_forall in Hall; exact Hall).
        congruence.
    - pose proof (skip_name_defined msg c Hc) as D.
      destruct (skip_name msg c) as [c'| | | | |] eqn:E; cbn in D; try tauto; [|eauto].
      exfalso. destruct (skip_name_sound msg c c' Hc E) as (ls' & Hex' & _). rewrite Hv in Hex'.
      assert (Hrej : exists w', spec_name msg (pos c) = SReject w') by eauto.
      apply spec_name_reject_iff in Hrej. apply Hrej. eauto.
  Qed.

  (* reading (decoding) a name over the whole message: succeeds exactly when the spec's name_at
     accepts a name of at most 255 octets, resumes where the spec says, and yields the text of
     the spec's labels *)
  Theorem read_is_name_at nk c : whole c ->
    match name_at msg (pos c) with
    | Some (r, true) =>
      exists ls, spec_name msg (pos c) = SAccept ls r /\ read_name msg nk c = Ok (join_labels (map snd ls), c_set_pos c r)
    | _ => exists e, read_name msg nk c = Err e
    end.
  Proof.
    intro Hw. pose proof (whole_cwf c Hw) as Hc. pose proof (whole_vis c Hw) as Hv.
    assert (Hfail : (forall t c', read_name msg nk c = Ok (t, c') -> False) -> exists e, read_name msg nk c = Err e).
    { intro Hno. pose proof (read_name_defined msg nk c Hc) as D.
      destruct (read_name msg nk c) as [[t c']| | | | |] eqn:E; cbn in D; try tauto; [|eauto]. exfalso. eapply Hno. reflexivity. }
    unfold name_at. destruct (spec_name msg (pos c)) as [ls r|w] eqn:Es.
    - pose proof Es as Es0. apply spec_name_accept_iff in Es. destruct Es as [Hex Hr].
      destruct (forallb (fun l => label_ok (snd l)) ls) eqn:Ef.
      + assert (Hok : Forall (fun l => label_ok (snd l) = true) ls) by (apply Forall_forall; rewrite forallb_forall in Ef; exact Ef).
        destruct (wire_len (map snd ls) <=? 255) eqn:Ew.
        * rewrite <- Hv in Hex. destruct (read_name_complete msg nk c ls Hc Hex Hok ltac:(lia)) as (c' & Er & R1 & R2 & R3).
          rewrite Hv in R1. pose proof (resume_at_det msg _ _ R1 _ Hr) as Hpos.
          exists ls. split; [reflexivity|]. rewrite Er. f_equal. f_equal.
          destruct c as [l p o], c' as [l' p' o']. cbn in *. subst. reflexivity.
        * apply Hfail. intros t c' E. destruct (read_name_sound msg nk c t c' Hc E) as (ls' & Hex' & _ & _ & Hlen & _).
          rewrite Hv in Hex'. pose proof (expands_det' _ _ _ _ _ Hex _ _ _ Hex'). subst ls'. lia.
      + apply Hfail. intros t c' E. destruct (read_name_sound msg nk c t c' Hc E) as (ls' & Hex' & Hall & _).
        rewrite Hv in Hex'. pose proof (expands_det' _ _ _ _ _ Hex _ _ _ Hex'). subst ls'.
        assert (forallb (fun l => label_ok (snd l)) ls = true) by (apply forallb_forall; rewrite Forall_forall in Hall; exact Hall).
        congruence.
    - apply Hfail. intros t c' E. destruct (read_name_sound msg nk c t c' Hc E) as (ls' & Hex' & _). rewrite Hv in Hex'.
      assert (Hrej : exists w', spec_name msg (pos c) = SReject w') by eauto.
      apply spec_name_reject_iff in Hrej. apply Hrej. eauto.
  Qed.

  (* big-endian fields: the spec's [be] is the cursor's checked read *)
  Lemma c_be_is_be c n : whole c -> 0 < n ->
    match be msg (pos c) n with
    | Some v => c_be msg c n = Ok (v, c_set_pos c (pos c + n))
    | None => exists e, c_be msg c n = Err e
    end.
  Proof.
    intros Hw Hn. pose proof (whole_cwf c Hw) as Hc. destruct Hw as [Hl Ho]. unfold be.
    destruct (pos c + n <=? lenN msg) eqn:E.
    - apply c_be_fwd; [assumption|assumption|lia].
    - pose proof (c_be_defined msg c n Hc Hn) as D.
      destruct (c_be msg c n) as [[v c']| | | | |] eqn:Eb; cbn in D; try tauto; [|eauto].
      apply c_be_ok in Eb. lia.
  Qed.

  Lemma whole_set_pos c p : whole c -> whole (c_set_pos c p).
  Proof. unfold whole. cbn. tauto. Qed.

  (* a question, borrowed flavour: exactly the spec's question_at *)
  Theorem question_ref_is_question_at c : whole c ->
    match question_at msg (pos c) with
    | Some it => m_question_ref msg c = (c_set_pos c (a_end it), Ok (OQuestionRef c (a_type it) (a_class it))) /\
                 a_start it = pos c
    | None => exists c' e, m_question_ref msg c = (c', Err e)
    end.
  Proof.
    intro Hw. unfold question_at, m_question_ref, mbind, mret, lift_c, lift, c_u16.
    pose proof (skip_is_name_at c Hw) as Hs. destruct (name_at msg (pos c)) as [[r fits]|].
    - rewrite Hs. cbn [bind].
      pose proof (c_be_is_be (c_set_pos c r) 2 (whole_set_pos c r Hw) ltac:(lia)) as H1. cbn [pos c_set_pos] in H1.
      destruct (be msg r 2) as [t|].
      + rewrite H1. rewrite set_pos_idem.
        pose proof (c_be_is_be (c_set_pos c (r + 2)) 2 (whole_set_pos c _ Hw) ltac:(lia)) as H2. cbn [pos c_set_pos] in H2.
        destruct (be msg (r + 2) 2) as [cl|].
        * rewrite H2, set_pos_idem. cbn [a_end a_type a_class a_start]. replace (r + 2 + 2) with (r + 4) by lia. split; reflexivity.
        * destruct H2 as [e H2]. rewrite H2. eauto.
      + destruct H1 as [e H1]. rewrite H1. eauto.
    - destruct Hs as [e Hs]. rewrite Hs. cbn [bind]. eauto.
  Qed.

  (* a record header, marker flavour: exactly the spec's record_at *)
  Theorem marker_is_record_at c p s : whole c ->
    match record_at msg (pos c) with
    | Some it =>
      (do* _ <- lift_c (skip_name msg); m_raw_marker msg p s) c =
      (c_set_pos c (a_type_off it + 10), Ok (mkMarker p (a_type_off it) (a_type it) (a_class it) (a_ttl it) (a_rdlen it) s)) /\
      a_start it = pos c /\ a_end it = a_type_off it + 10 + a_rdlen it /\
      a_data_ok it = (a_type_off it + 10 + a_rdlen it <=? lenN msg)
    | None => exists c' e, (do* _ <- lift_c (skip_name msg); m_raw_marker msg p s) c = (c', Err e)
    end.
  Proof.
    intro Hw. unfold record_at, m_raw_marker, mbind, mret, lift_c, lift, c_u16, c_u32.
    pose proof (skip_is_name_at c Hw) as Hs. destruct (name_at msg (pos c)) as [[r fits]|].
    - rewrite Hs. cbn [bind].
      pose proof (c_be_is_be (c_set_pos c r) 2 (whole_set_pos c r Hw) ltac:(lia)) as H1. cbn [pos c_set_pos] in H1.
      destruct (be msg r 2) as [t|]; [|destruct H1 as [e H1]; rewrite H1; eauto].
      rewrite H1, set_pos_idem.
      pose proof (c_be_is_be (c_set_pos c (r + 2)) 2 (whole_set_pos c _ Hw) ltac:(lia)) as H2. cbn [pos c_set_pos] in H2.
      destruct (be msg (r + 2) 2) as [cl|]; [|destruct H2 as [e H2]; rewrite H2; eauto].
      rewrite H2, set_pos_idem.
      pose proof (c_be_is_be (c_set_pos c (r + 2 + 2)) 4 (whole_set_pos c _ Hw) ltac:(lia)) as H3. cbn [pos c_set_pos] in H3.
      replace (r + 2 + 2) with (r + 4) in * by lia.
      destruct (be msg (r + 4) 4) as [ttl|]; [|destruct H3 as [e H3]; rewrite H3; eauto].
      rewrite H3, set_pos_idem.
      pose proof (c_be_is_be (c_set_pos c (r + 4 + 4)) 2 (whole_set_pos c _ Hw) ltac:(lia)) as H4. cbn [pos c_set_pos] in H4.
      replace (r + 4 + 4) with (r + 8) in * by lia.
      destruct (be msg (r + 8) 2) as [rdl|]; [|destruct H4 as [e H4]; rewrite H4; eauto].
      rewrite H4, set_pos_idem. cbn [a_type_off a_type a_class a_ttl a_rdlen a_start a_end a_data_ok pos c_set_pos].
      replace (r + 8 + 2) with (r + 10) by lia. repeat split; reflexivity.
    - destruct Hs as [e Hs]. rewrite Hs. cbn [bind]. eauto.
  Qed.

  (* the decoded text of the name the spec finds at p *)
  Definition name_text (p : N) : list byte :=
    match spec_name msg p with SAccept ls _ => join_labels (map snd ls) | SReject _ => [] end.

  (* the Records iterator parses the same fields with its own code (records.rs read_impl) *)
  Theorem iter_header_is_record_at c : whole c ->
    match record_at msg (pos c) with
    | Some it =>
      (do* _ <- lift_c (skip_name msg); do* ty <- lift (c_u16 msg); do* cl <- lift (c_u16 msg);
       do* ttl <- lift (c_u32 msg); do* rdlen <- lift (c_u16 msg); mret (ty, cl, ttl, rdlen)) c =
      (c_set_pos c (a_type_off it + 10), Ok (a_type it, a_class it, a_ttl it, a_rdlen it)) /\
      name_at msg (pos c) = Some (a_type_off it, a_fits255 it) /\
      a_start it = pos c /\ a_end it = a_type_off it + 10 + a_rdlen it /\
      a_data_ok it = (a_type_off it + 10 + a_rdlen it <=? lenN msg)
    | None => exists c' e,
      (do* _ <- lift_c (skip_name msg); do* ty <- lift (c_u16 msg); do* cl <- lift (c_u16 msg);
       do* ttl <- lift (c_u32 msg); do* rdlen <- lift (c_u16 msg); mret (ty, cl, ttl, rdlen)) c = (c', Err e)
    end.
  Proof.
    intro Hw. unfold record_at, mbind, mret, lift_c, lift, c_u16, c_u32.
    pose proof (skip_is_name_at c Hw) as Hs. destruct (name_at msg (pos c)) as [[r fits]|].
    - rewrite Hs. cbn [bind].
      pose proof (c_be_is_be (c_set_pos c r) 2 (whole_set_pos c r Hw) ltac:(lia)) as H1. cbn [pos c_set_pos] in H1.
      destruct (be msg r 2) as [t|]; [|destruct H1 as [e H1]; rewrite H1; eauto].
      rewrite H1, set_pos_idem.
      pose proof (c_be_is_be (c_set_pos c (r + 2)) 2 (whole_set_pos c _ Hw) ltac:(lia)) as H2. cbn [pos c_set_pos] in H2.
      destruct (be msg (r + 2) 2) as [cl|]; [|destruct H2 as [e H2]; rewrite H2; eauto].
      rewrite H2, set_pos_idem.
      pose proof (c_be_is_be (c_set_pos c (r + 2 + 2)) 4 (whole_set_pos c _ Hw) ltac:(lia)) as H3. cbn [pos c_set_pos] in H3.
      replace (r + 2 + 2) with (r + 4) in * by lia.
      destruct (be msg (r + 4) 4) as [ttl|]; [|destruct H3 as [e H3]; rewrite H3; eauto].
      rewrite H3, set_pos_idem.
      pose proof (c_be_is_be (c_set_pos c (r + 4 + 4)) 2 (whole_set_pos c _ Hw) ltac:(lia)) as H4. cbn [pos c_set_pos] in H4.
      replace (r + 4 + 4) with (r + 8) in * by lia.
      destruct (be msg (r + 8) 2) as [rdl|]; [|destruct H4 as [e H4]; rewrite H4; eauto].
      rewrite H4, set_pos_idem. cbn [a_type_off a_type a_class a_ttl a_rdlen a_start a_end a_data_ok a_fits255 pos c_set_pos].
      replace (r + 8 + 2) with (r + 10) by lia. repeat split; reflexivity.
    - destruct Hs as [e Hs]. rewrite Hs. cbn [bind]. eauto.
  Qed.

  (* the fixed part of a record header behind a name that ends at r *)
  Lemma raw_marker_is_be c p s r : whole c ->
    match be msg r 2, be msg (r + 2) 2, be msg (r + 4) 4, be msg (r + 8) 2 with
    | Some t, Some cl, Some ttl, Some rdl =>
      m_raw_marker msg p s (c_set_pos c r) = (c_set_pos c (r + 10), Ok (mkMarker p r t cl ttl rdl s))
    | _, _, _, _ => exists c' e, m_raw_marker msg p s (c_set_pos c r) = (c', Err e)
    end.
  Proof.
    intro Hw. unfold m_raw_marker, mbind, mret, lift, c_u16, c_u32.
    pose proof (c_be_is_be (c_set_pos c r) 2 (whole_set_pos c r Hw) ltac:(lia)) as H1. cbn [pos c_set_pos] in H1.
    destruct (be msg r 2) as [t|]; [|destruct H1 as [e H1]; rewrite H1; eauto].
    rewrite H1, set_pos_idem.
    pose proof (c_be_is_be (c_set_pos c (r + 2)) 2 (whole_set_pos c _ Hw) ltac:(lia)) as H2. cbn [pos c_set_pos] in H2.
    destruct (be msg (r + 2) 2) as [cl|]; [|destruct H2 as [e H2]; rewrite H2; eauto].
    rewrite H2, set_pos_idem.
    pose proof (c_be_is_be (c_set_pos c (r + 2 + 2)) 4 (whole_set_pos c _ Hw) ltac:(lia)) as H3. cbn [pos c_set_pos] in H3.
    replace (r + 2 + 2) with (r + 4) in * by lia.
    destruct (be msg (r + 4) 4) as [ttl|]; [|destruct H3 as [e H3]; rewrite H3; eauto].
    rewrite H3, set_pos_idem.
    pose proof (c_be_is_be (c_set_pos c (r + 4 + 4)) 2 (whole_set_pos c _ Hw) ltac:(lia)) as H4. cbn [pos c_set_pos] in H4.
    replace (r + 4 + 4) with (r + 8) in * by lia.
    destruct (be msg (r + 8) 2) as [rdl|]; [|destruct H4 as [e H4]; rewrite H4; eauto].
    rewrite H4, set_pos_idem. cbn [pos c_set_pos]. replace (r + 8 + 2) with (r + 10) by lia. reflexivity.
  Qed.

  (* the OWNED flavours: the same items, plus the decoded text of the name; they fail exactly when
     the borrowed flavour fails or the name does not fit 255 octets *)
  Theorem question_is_question_at c : whole c ->
    match question_at msg (pos c) with
    | Some it =>
      if a_fits255 it then
        exists ls r, spec_name msg (pos c) = SAccept ls r /\
          m_question msg c = (c_set_pos c (a_end it), Ok (OQuestion (join_labels (map snd ls)) (a_type it) (a_class it)))
      else exists c' e, m_question msg c = (c', Err e)
    | None => exists c' e, m_question msg c = (c', Err e)
    end.
  Proof.
    intro Hw. unfold question_at, m_question, mbind, mret, lift, c_u16.
    pose proof (read_is_name_at Inline c Hw) as Hs. destruct (name_at msg (pos c)) as [[r fits]|].
    - destruct fits.
      + destruct Hs as (ls & Es & Hs). rewrite Hs. cbn [bind].
        pose proof (c_be_is_be (c_set_pos c r) 2 (whole_set_pos c r Hw) ltac:(lia)) as H1. cbn [pos c_set_pos] in H1.
        destruct (be msg r 2) as [t|]; [|destruct H1 as [e H1]; rewrite H1; eauto].
        rewrite H1, set_pos_idem.
        pose proof (c_be_is_be (c_set_pos c (r + 2)) 2 (whole_set_pos c _ Hw) ltac:(lia)) as H2. cbn [pos c_set_pos] in H2.
        destruct (be msg (r + 2) 2) as [cl|]; [|destruct H2 as [e H2]; rewrite H2; eauto].
        rewrite H2, set_pos_idem. cbn [a_fits255 a_end a_type a_class]. exists ls, r. split; [exact Es|].
        replace (r + 2 + 2) with (r + 4) by lia. reflexivity.
      + destruct Hs as [e Hs]. rewrite Hs. cbn [bind].
        destruct (be msg r 2); [|eauto]. destruct (be msg (r + 2) 2); [|eauto]. cbn [a_fits255]. eauto.
    - destruct Hs as [e Hs]. rewrite Hs. cbn [bind]. eauto.
  Qed.

  Theorem header_n_is_record_at nk c p s : whole c ->
    match record_at msg (pos c) with
    | Some it =>
      if a_fits255 it then
        exists ls r, spec_name msg (pos c) = SAccept ls r /\
          (do* n <- lift (read_name msg nk); do* m <- m_raw_marker msg p s; mret (OHeaderN n m)) c =
          (c_set_pos c (a_type_off it + 10),
           Ok (OHeaderN (join_labels (map snd ls)) (mkMarker p (a_type_off it) (a_type it) (a_class it) (a_ttl it) (a_rdlen it) s)))
      else exists c' e, (do* n <- lift (read_name msg nk); do* m <- m_raw_marker msg p s; mret (OHeaderN n m)) c = (c', Err e)
    | None => exists c' e, (do* n <- lift (read_name msg nk); do* m <- m_raw_marker msg p s; mret (OHeaderN n m)) c = (c', Err e)
    end.
  Proof.
    intro Hw. unfold record_at.
    pose proof (read_is_name_at nk c Hw) as Hs. destruct (name_at msg (pos c)) as [[r fits]|].
    - pose proof (raw_marker_is_be c p s r Hw) as Hm.
      destruct fits.
      + destruct Hs as (ls & Es & Hs).
        destruct (be msg r 2) as [t|]; [|destruct Hm as (c' & e & Hm); unfold mbind, mret, lift; rewrite Hs; cbn [bind]; rewrite Hm; eauto].
        destruct (be msg (r + 2) 2) as [cl|]; [|destruct Hm as (c' & e & Hm); unfold mbind, mret, lift; rewrite Hs; cbn [bind]; rewrite Hm; eauto].
        destruct (be msg (r + 4) 4) as [ttl|]; [|destruct Hm as (c' & e & Hm); unfold mbind, mret, lift; rewrite Hs; cbn [bind]; rewrite Hm; eauto].
        destruct (be msg (r + 8) 2) as [rdl|]; [|destruct Hm as (c' & e & Hm); unfold mbind, mret, lift; rewrite Hs; cbn [bind]; rewrite Hm; eauto].
        cbn [a_fits255 a_type_off a_type a_class a_ttl a_rdlen]. exists ls, r. split; [exact Es|].
        unfold mbind, mret, lift. rewrite Hs. cbn [bind]. rewrite Hm. reflexivity.
      + destruct Hs as [e Hs].
        assert (Hf : exists c' e, (do* n <- lift (read_name msg nk); do* m <- m_raw_marker msg p s; mret (OHeaderN n m)) c = (c', Err e))
          by (unfold mbind, mret, lift; rewrite Hs; cbn [bind]; eauto).
        destruct (be msg r 2); [|exact Hf]. destruct (be msg (r + 2) 2); [|exact Hf]. destruct (be msg (r + 4) 4); [|exact Hf].
        destruct (be msg (r + 8) 2); [|exact Hf]. cbn [a_fits255]. exact Hf.
    - destruct Hs as [e Hs]. unfold mbind, mret, lift. rewrite Hs. cbn [bind]. eauto.
  Qed.
End P.
