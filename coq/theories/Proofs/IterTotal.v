(* Proofs/IterTotal.v — the iterator API (MessageIterator::new, questions(), records()) returns a
   value or an error value on EVERY byte string: the question-skipping loop, the Questions
   iterator, the records iterator's internal "skip records of unknown type/class" loop and the
   consumer's drain loop all end (every record consumes at least 11 octets), the u16 section
   counters never overflow, the typed reads never panic. *)
From Coq Require Import ZArith.
From RsdnsModel Require Import Base GenConst GenCursor GenLabels GenNames GenHeader GenTypes GenTracker GenReader GenRData.
From RsdnsModel Require Import Cursor Names Labels Header Tracker RData Reader Iter.
From RsdnsModel.Proofs Require Import CursorSafe ListN LabelsTotal Window Defined ReaderTotal FromMsgTotal.
From Coq Require Import ZifyBool ZifyN ZifyNat.
Open Scope N_scope.

Section I.
  Variable msg : list byte.

  (* ---- MessageIterator::new ---- *)
  Lemma tdef_skip_question : tdef msg (m_skip_question msg).
  Proof. unfold tdef, m_skip_question. eapply t_bind; [apply d_skip_name|intros ?]. apply d_skip. Qed.

  Lemma tdef_skip_n n : tdef msg (skip_n_questions msg n).
  Proof.
    induction n as [|k IH]; cbn [skip_n_questions]; [apply t_ret; auto|].
    eapply t_bind; [apply tdef_skip_question|intros ?]. exact IH.
  Qed.

  Theorem iter_new_defined :
    defined (iter_new msg) /\
    forall h off, iter_new msg = Ok (h, off) -> h_qd h <= 65535 /\ h_an h <= 65535 /\ h_ns h <= 65535 /\ h_ar h <= 65535.
  Proof.
    unfold iter_new. destruct (read_header_good msg (c_new msg) (cwf_new msg)) as [_ H].
    destruct (read_header msg (c_new msg)) as [c1 x]. cbn [snd] in H.
    destruct x as [h| | | | |]; cbn [bind]; try (exfalso; exact H); [|split; [exact I|discriminate]].
    destruct (tdef_skip_n (N.to_nat (h_qd h)) (c_with_pos msg HEADER_LENGTH) (cwf_with_pos msg _) I) as [_ D].
    destruct (skip_n_questions msg (N.to_nat (h_qd h)) (c_with_pos msg HEADER_LENGTH)) as [c2 y]. cbn [snd] in D.
    destruct y as [u| | | | |]; cbn [bind]; try (exfalso; exact D); (split; [exact I|]); [|discriminate].
    intros h' off E. inversion E; subst. exact H.
  Qed.

  (* ---- questions() ---- *)
  Theorem questions_drain_defined n : forall c acc, cwf msg c ->
    match snd (questions_drain msg n c acc) with
    | None => True
    | Some r => defined r /\ forall q, r <> Ok q
    end.
  Proof.
    induction n as [|k IH]; intros c acc Hc; cbn [questions_drain]; [exact I|].
    destruct (tdef_m_question msg c Hc I) as [Hc' D].
    destruct (m_question msg c) as [c' r]. cbn [fst snd] in *.
    destruct r as [q| | | | |]; try (exfalso; exact D); [apply IH; exact Hc'|].
    cbn. split; [exact I|discriminate].
  Qed.

  (* ---- records() ---- *)
  Definition IInv (it : records_it) : Prop := cwf msg (ri_cur it) /\ twf (ri_tr it).
  Definition imu (it : records_it) : N := lim (ri_cur it) - pos (ri_cur it).

  Lemma cwf_pos c p : cwf msg c -> cwf msg (c_set_pos c p).
  Proof. unfold cwf, c_set_pos. cbn. tauto. Qed.

  (* the fixed part of a record as the iterator reads it *)
  Lemma iter_header_facts c c1 ty cl ttl rdlen :
    cwf msg c ->
    (do* _ <- lift_c (skip_name msg); do* ty <- lift (c_u16 msg); do* cl <- lift (c_u16 msg);
     do* ttl <- lift (c_u32 msg); do* rdlen <- lift (c_u16 msg); mret (ty, cl, ttl, rdlen)) c = (c1, Ok (ty, cl, ttl, rdlen)) ->
    cwf msg c1 /\ pos c + 11 <= pos c1 /\ pos c1 <= lim c1 /\ lim c1 = lim c.
  Proof.
    intros Hc. unfold mbind, mret, lift_c, lift, c_u16, c_u32.
    destruct (skip_name msg c) as [c0| | | | |] eqn:Es; cbn [bind]; try discriminate.
    destruct (skip_name_advance msg _ _ Hc Es) as (B1 & B2 & B3).
    destruct (c_be msg c0 2) as [[v1 d1]| | | | |] eqn:E1; try discriminate.
    destruct (c_be msg d1 2) as [[v2 d2]| | | | |] eqn:E2; try discriminate.
    destruct (c_be msg d2 4) as [[v3 d3]| | | | |] eqn:E3; try discriminate.
    destruct (c_be msg d3 2) as [[v4 d4]| | | | |] eqn:E4; try discriminate.
    intro H; inversion H; subst. apply c_be_ok in E1, E2, E3, E4.
    destruct E1 as (A1 & _ & _ & ->), E2 as (A2 & _ & _ & ->), E3 as (A3 & _ & _ & ->), E4 as (A4 & _ & _ & ->).
    split.
    - repeat apply cwf_pos. unfold skip_name in Es. destruct (skip_name_loop _ _ _); cbn [bind] in Es; try discriminate.
      destruct (_ <=? _); inversion Es. apply cwf_pos. exact Hc.
    - cbn in *. lia.
  Qed.

  Lemma iter_header_defined c : cwf msg c ->
    defined (snd ((do* _ <- lift_c (skip_name msg); do* ty <- lift (c_u16 msg); do* cl <- lift (c_u16 msg);
     do* ttl <- lift (c_u32 msg); do* rdlen <- lift (c_u16 msg); mret (ty, cl, ttl, rdlen)) c)).
  Proof.
    intro Hc.
    assert (T : tdef msg (do* _ <- lift_c (skip_name msg); do* ty <- lift (c_u16 msg); do* cl <- lift (c_u16 msg);
       do* ttl <- lift (c_u32 msg); do* rdlen <- lift (c_u16 msg); mret (ty, cl, ttl, rdlen))).
    { unfold tdef, c_u16, c_u32. eapply t_bind; [apply d_skip_name|intros ?].
      repeat (eapply t_bind; [apply d_be; reflexivity|intros ?]). apply t_ret. auto. }
    destruct (T c Hc I) as [_ D]. destruct (snd _); cbn; tauto.
  Qed.

  Theorem records_read_impl_total fuel : forall it, IInv it -> (N.to_nat (imu it) < fuel)%nat ->
    let p := records_read_impl msg fuel it in
    IInv (fst p) /\ defined (snd p) /\
    (forall x, snd p = Ok (RItem x) -> imu (fst p) < imu it).
  Proof.
    induction fuel as [|f IH]; intros it [Hc Ht] Hf; [lia|]. cbv zeta. cbn [records_read_impl].
    pose proof (next_section_spec (ri_tr it) (pos (ri_cur it)) Ht) as Hn.
    destruct (next_section (ri_tr it) (pos (ri_cur it))) as [tr1 so]. destruct Hn as (N1 & N2 & N3 & N4).
    assert (Hi1 : IInv (mkRecIt (ri_cur it) tr1 (ri_err it))) by (split; assumption).
    destruct so as [s|]; [|cbn; split; [exact Hi1|split; [exact I|discriminate]]].
    destruct N4 as [Hs Hlt]. rewrite <- N1 in Hlt.
    pose proof (iter_header_defined (ri_cur it) Hc) as Dh.
    match goal with |- context [let (c1, r) := ?m (ri_cur it) in _] => destruct (m (ri_cur it)) as [c1 r] eqn:Eh end.
    cbn [snd] in Dh.
    destruct r as [[[[ty cl] ttl] rdlen]| | | | |]; try (exfalso; exact Dh).
    2:{ cbn. split; [|split; [exact I|discriminate]]. split; [|exact N3]. cbn.
        (* the cursor after a failed header parse is still a cursor over the same buffer *)
        assert (T : tdef msg (do* _ <- lift_c (skip_name msg); do* ty <- lift (c_u16 msg); do* cl <- lift (c_u16 msg);
           do* ttl <- lift (c_u32 msg); do* rdlen <- lift (c_u16 msg); mret (ty, cl, ttl, rdlen))).
        { unfold tdef, c_u16, c_u32. eapply t_bind; [apply d_skip_name|intros ?].
          repeat (eapply t_bind; [apply d_be; reflexivity|intros ?]). apply t_ret. auto. }
        destruct (T (ri_cur it) Hc I) as [Hc1 _]. rewrite Eh in Hc1. exact Hc1. }
    destruct (iter_header_facts _ _ _ _ _ _ Hc Eh) as (Hc1 & Hadv & Hpl & Hlim).
    assert (Hsr : forall p, exists t, section_read tr1 s p = Ok t /\ twf t) by (intro p; apply section_read_ok; assumption).
    destruct (iter_skip_unknown _ _).
    - destruct (c_skip c1 rdlen) as [c2| | | | |] eqn:Ek;
        try (pose proof (c_skip_defined c1 rdlen) as Dk; rewrite Ek in Dk; exfalso; exact Dk).
      + apply c_skip_ok in Ek. destruct Ek as [-> Hk]. specialize (Hk Hpl).
        destruct (Hsr (pos (c_set_pos c1 (pos c1 + rdlen)))) as [t2 [Es Ht2]]. rewrite Es.
        assert (Hi2 : IInv (mkRecIt (c_set_pos c1 (pos c1 + rdlen)) t2 (ri_err it))).
        { split; [apply cwf_pos; exact Hc1|exact Ht2]. }
        destruct (IH _ Hi2) as (K1 & K2 & K3); [unfold imu in *; cbn in *; lia|].
        split; [exact K1|]. split; [exact K2|]. intros x Hx. specialize (K3 x Hx). unfold imu in *. cbn in *. lia.
      + cbn. split; [split; [exact Hc1|exact N3]|]. split; [exact I|discriminate].
    - destruct (read_rdata msg ty rdlen) as [m|] eqn:Er; [|cbn; split; [split; [exact Hc1|exact N3]|split; [exact I|discriminate]]].
      assert (Hcl : cwf msg (c_clone_with_pos c1 (pos (ri_cur it)))).
      { revert Hc1. unfold cwf, c_clone_with_pos. intros [H1 H2]. cbn. destruct (orig c1); split; try tauto; lia. }
      pose proof (read_name_defined msg Inline _ Hcl) as Dn.
      destruct (read_name msg Inline (c_clone_with_pos c1 (pos (ri_cur it)))) as [[nm cx]| | | | |]; try (exfalso; exact Dn);
        [|cbn; split; [split; [exact Hc1|exact N3]|split; [exact I|discriminate]]].
      pose proof (read_rdata_defined msg ty rdlen m Er c1 Hc1 I) as [Hc2 Dd].
      destruct (m c1) as [c2 d] eqn:Em. cbn [fst snd] in *.
      destruct d as [d| | | | |]; try (exfalso; exact Dd);
        [|cbn; split; [split; [exact Hc2|exact N3]|split; [exact I|discriminate]]].
      destruct (read_rdata_exact msg ty rdlen m c1 c2 d Er Hc1 Em) as (_ & X1 & X2 & _ & X3).
      destruct (Hsr (pos c2)) as [t2 [Es Ht2]]. rewrite Es. cbn. split; [split; [exact Hc2|exact Ht2]|]. split; [exact I|].
      intros x _. unfold imu. cbn. lia.
  Qed.

  Theorem records_drain_total n : forall it acc, IInv it -> (N.to_nat (imu it) < n)%nat ->
    defined (records_drain msg n it acc).
  Proof.
    induction n as [|k IH]; intros it acc Hi Hn; [lia|]. cbn [records_drain].
    assert (Hf : (N.to_nat (imu it) < iter_fuel msg)%nat).
    { destruct Hi as [[Hl _] _]. unfold imu, iter_fuel. lia. }
    destruct (records_read_impl_total (iter_fuel msg) it Hi Hf) as (K1 & K2 & K3).
    destruct (records_read_impl msg (iter_fuel msg) it) as [it' r]. cbn [fst snd] in *.
    destruct r as [[|x]| | | | |]; try (exfalso; exact K2); try exact I.
    apply IH; [exact K1|]. specialize (K3 x eq_refl). lia.
  Qed.

  Theorem iter_records_defined h off :
    h_an h <= 65535 -> h_ns h <= 65535 -> h_ar h <= 65535 -> h_qd h <= 65535 ->
    defined (iter_records msg h off).
  Proof.
    intros H1 H2 H3 H4. unfold iter_records. apply records_drain_total.
    - split; [apply cwf_with_pos|]. unfold twf, cw, tr_new. cbn. lia.
    - unfold imu, iter_fuel, c_with_pos. cbn. lia.
  Qed.
End I.
