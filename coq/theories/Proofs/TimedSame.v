(* Proofs/TimedSame.v — with exact timers the blocking client and the async clients are the same
   machine over time for the WHOLE raw query: UDP exchange, truncation fallback and TCP exchange,
   in every world (any arrivals in any order, any TCP peer). *)
From RsdnsModel Require Import Base GenConst GenHeader GenReader GenClient Cursor Names Labels Header Tracker RData Reader Client Timed.
From RsdnsModel.Proofs Require Import ClientProofs TimedProofs TimedUntimed.
From Coq Require Import ZifyBool ZifyN ZifyNat.
Open Scope N_scope.

Section Same.
Variables (start lifetime : N) (qt : option N) (smol : bool).
Local Notation D := (start + lifetime).
Let z : N -> N := fun _ => 0.

(* the blocking client's read loop, which re-arms lifetime - elapsed before every read, is the async
   read under the call's timer; a socket time-out there is what the async timer reports as Timeout *)
Lemma std_read_is_async (timeout_at : N -> res N) lo :
  (forall n, lo <= n -> n < D -> exists tau, timeout_at n = Ok tau /\ n + tau = D) ->
  forall need bs eof now got, lo <= now -> now < D ->
  (let '(r, t, rest) := std_tcp_read z z timeout_at need bs eof now got in (map_timeout r, t, rest)) =
  async_tcp_read start lifetime qt z smol need bs eof now got.
Proof.
  intros Hto. induction need as [|k IH]; intros bs eof now got Hlo Hn; [reflexivity|].
  cbn [std_tcp_read async_tcp_read]. rewrite (cd_D start lifetime qt smol).
  destruct (Hto now Hlo Hn) as [tau [A A1]]. rewrite A.
  replace (now + tau) with D by lia. unfold z at 1 2 3 4. rewrite !N.add_0_r.
  destruct bs as [|[t b] bs'].
  - destruct eof as [te|]; [destruct (te <? D)|]; reflexivity.
  - destruct (t <? D) eqn:E; [|reflexivity].
    replace (N.max now t + z (N.max now t)) with (N.max now t) by (unfold z; lia).
    apply IH; lia.
Qed.

Lemma std_read_time (timeout_at : N -> res N) lo :
  (forall n, lo <= n -> n < D -> exists tau, timeout_at n = Ok tau /\ n + tau = D) ->
  forall need bs eof now got x t rest, lo <= now -> now < D ->
  std_tcp_read z z timeout_at need bs eof now got = (Ok x, t, rest) -> now <= t /\ t < D.
Proof.
  intros Hto. induction need as [|k IH]; intros bs eof now got x t rest Hlo Hn H; cbn [std_tcp_read] in H.
  - inversion H; subst. lia.
  - destruct (Hto now Hlo Hn) as [tau [A A1]]. rewrite A in H.
    destruct bs as [|[t1 b] bs'].
    + destruct eof as [te|]; [destruct (te <? now + tau)|]; inversion H.
    + destruct (t1 <? now + tau) eqn:E; [|inversion H].
      replace (N.max now t1 + z (N.max now t1)) with (N.max now t1) in H by (unfold z; lia).
      apply IH in H; lia.
Qed.

Theorem std_tcp_is_async buf qs srv now : start <= qs -> qs <= now -> now < D ->
  (let '(r, t) := std_tcp_exchange start lifetime z z buf qs srv now in (map_timeout r, t)) =
  async_tcp_exchange start lifetime qt z buf smol srv now.
Proof.
  intros H1 H2 H3. unfold std_tcp_exchange, async_tcp_exchange. rewrite (cd_D start lifetime qt smol).
  rewrite (lifetime_left_exact start lifetime qs now H1 H2 H3).
  destruct (tp_accept srv) as [c|].
  - replace (c <? D - now) with (now + c <? D) by lia. destruct (now + c <? D) eqn:Ec.
    + rewrite (lifetime_left_exact start lifetime qs (now + c) H1 ltac:(lia) ltac:(lia)).
      pose proof (std_read_is_async (fun n => tcp_prefix_timeout_at n start qs lifetime) qs
                    (fun n Hn Hd => prefix_timeout_exact start lifetime qs n H1 Hn Hd) 2 (tp_bytes srv) (tp_eof srv) (now + c) [] ltac:(lia) ltac:(lia)) as Hp.
      destruct (std_tcp_read z z (fun n => tcp_prefix_timeout_at n start qs lifetime) 2 (tp_bytes srv) (tp_eof srv) (now + c) []) as [[r2 now2] rest2] eqn:E2.
      rewrite <- Hp. destruct r2 as [prefix|e| | | |]; try reflexivity; [|cbn [map_timeout]; destruct (is_timedout e); reflexivity].
      cbn [map_timeout].
      change (std_tcp_too_big (be_val prefix 0) buf) with (async_tcp_too_big (be_val prefix 0) buf).
      destruct (async_tcp_too_big (be_val prefix 0) buf); [reflexivity|].
      assert (Hq1 : qs <= now + c) by lia. assert (Hq2 : now + c < D) by lia.
      destruct (std_read_time _ qs (fun n Hn Hd => prefix_timeout_exact start lifetime qs n H1 Hn Hd) 2%nat (tp_bytes srv) (tp_eof srv) (now + c) [] prefix now2 rest2 Hq1 Hq2 E2) as [T1 T2].
      pose proof (std_read_is_async (fun n => tcp_body_timeout_at n start qs lifetime) qs
                    (fun n Hn Hd => body_timeout_exact start lifetime qs n H1 Hn Hd) (N.to_nat (be_val prefix 0)) rest2 (tp_eof srv) now2 [] ltac:(lia) T2) as Hb.
      destruct (std_tcp_read z z (fun n => tcp_body_timeout_at n start qs lifetime) (N.to_nat (be_val prefix 0)) rest2 (tp_eof srv) now2 []) as [[r3 now3] rest3].
      rewrite <- Hb. reflexivity.
    + unfold z. rewrite N.add_0_r. cbn [map_timeout is_timedout IO_TIMEDOUT]. replace (2 =? 2) with true by reflexivity.
      f_equal. lia.
  - unfold z. rewrite N.add_0_r. cbn [map_timeout is_timedout IO_TIMEDOUT]. replace (2 =? 2) with true by reflexivity.
    f_equal. lia.
Qed.
End Same.

Section SameQuery.
Variable good : list byte -> option N.
Variable acc : list byte -> res (option N).
Hypothesis acc_good : forall d, acc d = Ok (good d).
Variables (start lifetime : N) (qt : option N) (smol : bool) (buf : N).
Local Notation D := (start + lifetime).
Local Notation z := (fun _ : N => 0).

Lemma arl_ok_lt dl B : forall arrs now x t rest, now < B -> dl <= B ->
  async_recv_loop acc z dl arrs now = (Ok x, t, rest) -> t < B.
Proof.
  induction arrs as [|[t1 d1] a IH]; intros now x t rest Hn Hd H; cbn [async_recv_loop] in H; [inversion H|].
  destruct (t1 <? dl) eqn:E; [|inversion H].
  rewrite acc_good in H. destruct (good d1).
  - inversion H; subst. lia.
  - eapply (IH (N.max now t1)); [lia|exact Hd|exact H].
Qed.

Lemma async_ok_lt : forall fuel arrs now s x t rest, now < D ->
  async_udp_exchange acc start lifetime qt z smol fuel arrs now = (s, Ok x, t, rest) -> t < D.
Proof.
  induction fuel as [|f IH]; intros arrs now s x t rest Hn H; cbn [async_udp_exchange] in H; [inversion H|].
  rewrite (cd_D start lifetime qt smol) in H. destruct qt as [q|] eqn:Eqt.
  - destruct (async_recv_loop acc z _ arrs now) as [[r1 t1] rest1] eqn:Er.
    destruct r1 as [x1|e| | | |]; try (inversion H; fail).
    + inversion H; subst. eapply arl_ok_lt; [exact Hn| |exact Er]. lia.
    + destruct (is_timedout e); [|inversion H]. destruct (_ && _) eqn:Eb; [|inversion H].
      destruct (async_udp_exchange acc start lifetime (Some q) z smol f rest1 t1) as [[[s2 r2] t2] rest2] eqn:E2.
      inversion H; subst. eapply (IH rest1 t1); [lia|exact E2].
  - destruct (async_recv_loop acc z D arrs now) as [[r1 t1] rest1] eqn:Er.
    destruct r1 as [x1|e| | | |]; try (inversion H; fail).
    + inversion H; subst. eapply arl_ok_lt; [exact Hn| |exact Er]. lia.
    + destruct (is_timedout e); inversion H.
Qed.

(* ALL FOUR CLIENTS ARE ONE MACHINE OVER TIME (exact timers): in every world — any arrivals in any
   order, any TCP peer, every strategy — the blocking client, which computes relative socket timeouts
   from clock readings before every send, receive and read, and the async clients, which run under
   two absolute timers, make the same transmissions at the same instants, start the same exchanges,
   and return the same result at the same instant *)
Theorem std_query_is_async fuel strategy arrs srv :
  qt_pos qt -> 0 < lifetime -> (N.to_nat lifetime < fuel)%nat ->
  std_query acc start lifetime qt z z buf fuel strategy arrs srv =
  async_query acc start lifetime qt z buf smol fuel strategy arrs srv.
Proof.
  intros Hq Hl Hf. unfold std_query, async_query.
  change (std_udp_first strategy) with (async_udp_first strategy).
  destruct (async_udp_first strategy).
  - rewrite (std_is_async_exact good acc acc_good start lifetime qt smol fuel arrs start Hq (N.le_refl _)) by lia.
    destruct (async_udp_exchange acc start lifetime qt z smol fuel arrs start) as [[[s1 r1] t1] rest1] eqn:E1.
    assert (Hz : forall x : N, z x <= 0) by (intro; lia).
    assert (Hs : start < D) by lia.
    destruct (async_exchange_bounds good acc acc_good start lifetime qt smol z z 0 Hz Hz fuel arrs start s1 r1 t1 rest1 Hq (N.le_refl _) Hs E1)
      as (B1 & B2 & B3 & B4 & B5 & _).
    destruct r1 as [[d fl]|e| | | |]; cbn [exch_ok] in B3; try contradiction; try reflexivity.
    + change (std_tc_fallback (flag_tc fl) (std_tcp_allowed strategy)) with (async_tc_fallback (flag_tc fl) (async_tcp_allowed strategy)).
      destruct (async_tc_fallback (flag_tc fl) (async_tcp_allowed strategy)); [|reflexivity].
      pose proof (async_ok_lt fuel arrs start s1 (d, fl) t1 rest1 Hs E1) as Ht.
      assert (Hlast : start <= last s1 start /\ last s1 start <= t1).
      { destruct B4 as [[-> _]|[s' [-> _]]]; [cbn [last]; lia|].
        pose proof (last_in s' start start) as Hin. rewrite Forall_forall in B5. apply B5 in Hin. lia. }
      pose proof (std_tcp_is_async start lifetime qt smol buf (last s1 start) srv t1 (proj1 Hlast) (proj2 Hlast) Ht) as Hx.
      destruct (std_tcp_exchange start lifetime z z buf (last s1 start) srv t1) as [r2 t2].
      rewrite <- Hx. reflexivity.
    + subst e. reflexivity.
  - pose proof (std_tcp_is_async start lifetime qt smol buf start srv start (N.le_refl _) (N.le_refl _) ltac:(lia)) as Hx.
    destruct (std_tcp_exchange start lifetime z z buf start srv start) as [r2 t2].
    rewrite <- Hx. reflexivity.
Qed.
End SameQuery.

(* the filter of the blocking client and the filter of the async template are the same function
   (their leaves, translated separately from the two sources, are the same expressions) *)
Lemma filter_same q : filter_of true q = filter_of false q.
Proof. reflexivity. Qed.

Theorem all_clients_one_machine smol smol' q lifetime qt buf strategy arrs srv :
  qt_pos qt -> 0 < lifetime ->
  client_query_timed true smol q lifetime qt zero_jit zero_jit buf strategy arrs srv =
  client_query_timed false smol' q lifetime qt zero_jit zero_jit buf strategy arrs srv.
Proof.
  intros Hq Hl. unfold client_query_timed. rewrite <- filter_same.
  apply (std_query_is_async (good_of true q) (filter_of true q) (filter_good true q)); try assumption.
  unfold exchange_fuel. lia.
Qed.
