(* Proofs/ReaderTotal.v — when the cursor-style reader is used as documented, no call panics,
   trips a debug assertion, loops or is UB: every call returns a value or an error value, for
   EVERY message.  "As documented" is a precondition of each call, stated on the reader state:
   the header is read first on a fresh reader; a data call (skip / bytes / typed / opt) is given
   the marker the preceding header call returned, with the reader still where that call left it.
   Invariant [RInv]: the cursor is well-formed and every counter of the section tracker satisfies
   read <= total <= 65535 — so `total - read`, `read += 1` and the u16 casts cannot overflow. *)
From Coq Require Import ZArith.
From RsdnsModel Require Import Base GenConst GenCursor GenLabels GenNames GenHeader GenTypes GenTracker GenReader GenRData GenSpec.
From RsdnsModel Require Import Cursor Names Labels Header Tracker RData Reader.
From RsdnsModel.Proofs Require Import CursorSafe ListN LabelsTotal Defined.
From Coq Require Import ZifyBool ZifyN ZifyNat.
Open Scope N_scope.

(* ---------------------------------------------------------------- tracker well-formedness *)
Definition cw (c : counts) : Prop := read c <= total c /\ total c <= 65535.
Definition twf (tr : tracker) : Prop := cw (qd tr) /\ cw (t0 (secs tr)) /\ cw (t1 (secs tr)) /\ cw (t2 (secs tr)).

Lemma cw_tget tr s : twf tr -> cw (tget (secs tr) s).
Proof. intros (_ & A & B & C). unfold tget. destruct s as [|[|[]|]]; assumption. Qed.

Lemma left_defined c : cw c -> left c = Ok (total c - read c).
Proof. intros [H _]. unfold left, checked_sub. destruct (read c <=? total c) eqn:E; [reflexivity|lia]. Qed.

Lemma questions_left_ok tr : twf tr -> questions_left tr = Ok (total (qd tr) - read (qd tr)).
Proof. intros (A & _). apply left_defined; assumption. Qed.
Lemma records_left_in_ok tr s : twf tr -> records_left_in tr s = Ok (total (tget (secs tr) s) - read (tget (secs tr) s)).
Proof. intro H. apply left_defined, cw_tget; assumption. Qed.
Lemma records_left_defined tr : twf tr -> defined (records_left tr).
Proof.
  intros (_ & A & B & C). unfold records_left. rewrite (left_defined _ A), (left_defined _ B), (left_defined _ C). exact I.
Qed.

Lemma twf_set_off tr i v : twf tr -> twf (set_off tr i v).
Proof. unfold twf, set_off. cbn. tauto. Qed.
Lemma secs_set_off tr i v : secs (set_off tr i v) = secs tr. Proof. reflexivity. Qed.
Lemma qd_set_off tr i v : qd (set_off tr i v) = qd tr. Proof. reflexivity. Qed.

Lemma fill_qr_frame pos ns : forall tr, secs (fill_qr tr pos ns) = secs tr /\ qd (fill_qr tr pos ns) = qd tr.
Proof.
  induction ns as [|n ns IH]; intro tr; cbn [fill_qr]; [tauto|].
  destruct (qr_off_unset _); [|tauto]. destruct (qr_nonempty _); [cbn; tauto|].
  destruct (IH (set_off tr n (pos_as_offset pos))) as [A B]. rewrite A, B. cbn. tauto.
Qed.
Lemma fill_sr_frame pos ns : forall tr, secs (fill_sr tr pos ns) = secs tr /\ qd (fill_sr tr pos ns) = qd tr.
Proof.
  induction ns as [|n ns IH]; intro tr; cbn [fill_sr]; [tauto|].
  destruct (sr_off_unset _); [|tauto]. destruct (sr_nonempty _); [cbn; tauto|].
  destruct (IH (set_off tr n (sr_pos_as_offset pos))) as [A B]. rewrite A, B. cbn. tauto.
Qed.
Lemma ns_back_frame pos ps : forall tr, secs (ns_back tr pos ps) = secs tr /\ qd (ns_back tr pos ps) = qd tr.
Proof.
  induction ps as [|p ps IH]; intro tr; cbn [ns_back]; [tauto|].
  destruct (ns_prev_empty _ _); [|tauto].
  destruct (IH (set_off tr p (ns_pos_as_offset_prev pos))) as [A B]. rewrite A, B. cbn. tauto.
Qed.

Lemma twf_frame tr tr' : secs tr' = secs tr -> qd tr' = qd tr -> twf tr -> twf tr'.
Proof. unfold twf. intros -> ->. tauto. Qed.

(* a question is consumed *)
Lemma question_read_ok tr p : twf tr -> read (qd tr) < total (qd tr) ->
  exists t, question_read tr p = Ok t /\ twf t.
Proof.
  intros Hw Hlt. pose proof Hw as (A & B & C & D). unfold question_read, incr_u16.
  destruct (read (qd tr) <? 65535) eqn:E; [|destruct A; lia]. cbn [bind].
  set (tr1 := mkTr (mkCounts (total (qd tr)) (read (qd tr) + 1)) (secs tr) (offs tr)).
  assert (H1 : twf tr1) by (unfold twf, cw in *; cbn; repeat split; try tauto; lia).
  destruct (qr_last_question _ _); eexists; (split; [reflexivity|]); [|assumption].
  destruct (fill_qr_frame p [0; 1; 2] tr1) as [F1 F2]. exact (twf_frame _ _ F1 F2 H1).
Qed.

Lemma question_read_qd tr p t : question_read tr p = Ok t ->
  qd t = mkCounts (total (qd tr)) (read (qd tr) + 1).
Proof.
  unfold question_read, incr_u16. destruct (read (qd tr) <? 65535); [|discriminate]. unfold bind.
  destruct (qr_last_question _ _); intro H;
    (match type of H with Ok ?v = Ok t => assert (Hv : v = t) by congruence; rewrite <- Hv end); [|reflexivity].
  match goal with |- qd (fill_qr ?a ?b ?c) = _ => destruct (fill_qr_frame b c a) as [_ F]; rewrite F end. reflexivity.
Qed.

(* next_section: the tracker's counters are untouched; a section is returned only if it has
   unread records *)
Lemma next_section_spec tr p : twf tr ->
  let (t, so) := next_section tr p in
  secs t = secs tr /\ qd t = qd tr /\ twf t /\
  match so with Some s => s < 3 /\ read (tget (secs tr) s) < total (tget (secs tr) s) | None => True end.
Proof.
  intro Hw. unfold next_section, ns_try.
  assert (Hstep : forall s tr0, secs tr0 = secs tr -> qd tr0 = qd tr ->
            let tr1 := if ns_first_record (read (tget (secs tr0) s)) (tget (offs tr0) s) then set_off tr0 s (ns_pos_as_offset p) else tr0 in
            secs (ns_back tr1 p (below s)) = secs tr /\ qd (ns_back tr1 p (below s)) = qd tr).
  { intros s tr0 E1 E2. cbv zeta. destruct (ns_first_record _ _);
      match goal with |- context [ns_back ?x p ?l] => destruct (ns_back_frame p l x) as [A B]; rewrite A, B end; cbn; tauto. }
  unfold ns_has_unread.
  destruct (read (tget (secs tr) 0) <? total (tget (secs tr) 0)) eqn:E0.
  { destruct (Hstep 0 tr eq_refl eq_refl) as [A B]. split; [exact A|]. split; [exact B|]. split; [exact (twf_frame _ _ A B Hw)|]. split; lia. }
  destruct (read (tget (secs tr) 1) <? total (tget (secs tr) 1)) eqn:E1.
  { destruct (Hstep 1 tr eq_refl eq_refl) as [A B]. split; [exact A|]. split; [exact B|]. split; [exact (twf_frame _ _ A B Hw)|]. split; lia. }
  destruct (read (tget (secs tr) 2) <? total (tget (secs tr) 2)) eqn:E2.
  { destruct (Hstep 2 tr eq_refl eq_refl) as [A B]. split; [exact A|]. split; [exact B|]. split; [exact (twf_frame _ _ A B Hw)|]. split; lia. }
  repeat split; try assumption; apply Hw.
Qed.

(* a record is consumed *)
Lemma section_read_ok tr s p : twf tr -> read (tget (secs tr) s) < total (tget (secs tr) s) ->
  exists t, section_read tr s p = Ok t /\ twf t.
Proof.
  intros Hw Hlt. pose proof (cw_tget tr s Hw) as [Hc1 Hc2]. unfold section_read, incr_u16.
  destruct (read (tget (secs tr) s) <? 65535) eqn:E; [|lia]. cbn [bind].
  set (c := tget (secs tr) s) in *.
  set (tr1 := mkTr (qd tr) (tset (secs tr) s (mkCounts (total c) (read c + 1))) (offs tr)).
  assert (H1 : twf tr1).
  { destruct Hw as (A & B & C & D). unfold twf, cw in *. subst tr1 c. cbn [qd secs].
    unfold tset, tget in *. destruct s as [|[|[]|]]; cbn; repeat split; try tauto; lia. }
  destruct (sr_last_record _ _); eexists; (split; [reflexivity|]); [|assumption].
  destruct (fill_sr_frame p (above s) tr1) as [F1 F2]. exact (twf_frame _ _ F1 F2 H1).
Qed.

Lemma section_read_secs tr s p t : section_read tr s p = Ok t ->
  secs t = tset (secs tr) s (mkCounts (total (tget (secs tr) s)) (read (tget (secs tr) s) + 1)) /\ qd t = qd tr.
Proof.
  unfold section_read, incr_u16. destruct (read (tget (secs tr) s) <? 65535); [|discriminate]. unfold bind.
  destruct (sr_last_record _ _); intro H;
    (match type of H with Ok ?v = Ok t => assert (Hv : v = t) by congruence; rewrite <- Hv end); [|cbn; tauto].
  match goal with |- context [fill_sr ?a ?b ?c] => destruct (fill_sr_frame b c a) as [F1 F2]; rewrite F1, F2 end. cbn. tauto.
Qed.

Lemma next_section_first tr p s : s < 3 ->
  (forall s', s' < s -> read (tget (secs tr) s') = total (tget (secs tr) s')) ->
  read (tget (secs tr) s) < total (tget (secs tr) s) -> snd (next_section tr p) = Some s.
Proof.
  intros Hs Hlow Hun. unfold next_section, ns_try, ns_has_unread.
  assert (s = 0 \/ s = 1 \/ s = 2) as [-> | [-> | ->]] by lia.
  - destruct (_ <? _) eqn:E; [reflexivity|lia].
  - pose proof (Hlow 0 ltac:(lia)). destruct (read (tget (secs tr) 0) <? _) eqn:E0; [lia|].
    destruct (read (tget (secs tr) 1) <? _) eqn:E1; [reflexivity|lia].
  - pose proof (Hlow 0 ltac:(lia)). pose proof (Hlow 1 ltac:(lia)).
    destruct (read (tget (secs tr) 0) <? _) eqn:E0; [lia|]. destruct (read (tget (secs tr) 1) <? _) eqn:E1; [lia|].
    destruct (read (tget (secs tr) 2) <? _) eqn:E2; [reflexivity|lia].
Qed.

Lemma tget_tset_same {A} (t : tri A) s a : s < 3 -> tget (tset t s a) s = a.
Proof. intro H. assert (s = 0 \/ s = 1 \/ s = 2) as [-> | [-> | ->]] by lia; reflexivity. Qed.
Lemma tget_tset_other {A} (t : tri A) s s' a : s < 3 -> s' < 3 -> s' <> s -> tget (tset t s a) s' = tget t s'.
Proof.
  intros H H' Hne. assert (s = 0 \/ s = 1 \/ s = 2) as [-> | [-> | ->]] by lia;
    (assert (s' = 0 \/ s' = 1 \/ s' = 2) as [-> | [-> | ->]] by lia); try reflexivity; lia.
Qed.

Lemma twf_seek tr s : twf tr -> twf (tr_seek tr s).
Proof.
  intros (A & B & C & D). unfold twf, tr_seek, cw in *. cbn [qd secs t0 t1 t2 tget].
  repeat split; try tauto; destruct (_ <? s); cbn; lia.
Qed.

(* ---------------------------------------------------------------- big-endian values are bounded *)
Lemma bN_lt b : bN b < 256.
Proof. unfold bN. pose proof (Byte.to_N_bounded b). lia. Qed.
Lemma be_val_bound l : forall acc, be_val l acc < (acc + 1) * 256 ^ lenN l.
Proof.
  induction l as [|b l IH]; intro acc; cbn [be_val].
  - rewrite lenN_nil. change (256 ^ 0) with 1. lia.
  - specialize (IH (acc * 256 + bN b)). rewrite lenN_cons. pose proof (bN_lt b).
    replace (256 ^ (lenN l + 1)) with (256 * 256 ^ lenN l) by (rewrite N.pow_add_r; lia).
    nia.
Qed.
Lemma be_val_u16 (msg : list byte) p : be_val (subN msg p 2) 0 <= 65535.
Proof.
  pose proof (be_val_bound (subN msg p 2) 0) as H.
  assert (Hl : lenN (subN msg p 2) <= 2) by (unfold subN, lenN; rewrite firstn_length; lia).
  assert (256 ^ lenN (subN msg p 2) <= 256 ^ 2) by (apply N.pow_le_mono_r; lia).
  change (256 ^ 2) with 65536 in *. lia.
Qed.

(* ---------------------------------------------------------------- the reader *)
Section R.
  Variable msg : list byte.

  Definition RInv (r : reader) : Prop := cwf msg (r_cur r) /\ twf (r_tr r).
  Definition rgood {X} (p : reader * res X) : Prop := RInv (fst p) /\ defined (snd p).

  Lemma rgood_run {X} r (m : M X) : RInv r -> tdef msg m -> rgood (run r m).
  Proof.
    intros [Hc Ht] Hm. unfold run, rgood, RInv. destruct (Hm _ Hc I) as [H1 H2]. destruct (m (r_cur r)) as [c' x]. cbn in *.
    split; [split; assumption|]. destruct x; cbn; tauto.
  Qed.
  Lemma rgood_latch {X} (p : reader * res X) : rgood p -> rgood (latch p).
  Proof. unfold latch, rgood, RInv. destruct p as [r x]; destruct x; cbn; tauto. Qed.
  Lemma rgood_bind2 {X Y} (p : reader * res X) (f : reader -> X -> reader * res Y) :
    rgood p -> (forall r x, p = (r, Ok x) -> RInv r -> rgood (f r x)) -> rgood (bind2 p f).
  Proof.
    unfold bind2, rgood. destruct p as [r x]; cbn. intros [Hi Hd] Hf.
    destruct x; cbn in *; try tauto. apply Hf; [reflexivity|assumption].
  Qed.
  Lemma rgood_unit_obs p : rgood p -> rgood (unit_obs p).
  Proof. unfold unit_obs, rgood. destruct p as [r x]. cbn. destruct x; cbn; tauto. Qed.

  (* primitives as total computations *)
  Lemma d_skip_name P : triple msg P (lift_c (skip_name msg)) (fun _ _ => True).
  Proof.
    unfold lift_c. apply tdef_lift. intros c Hc. pose proof (skip_name_defined msg c Hc) as D.
    destruct (skip_name msg c) as [c1| | | | |] eqn:E; cbn [bind defined] in *; try tauto; (split; [exact I|]); try discriminate.
    intros x c' H; inversion H; subst. unfold skip_name in E.
    destruct (skip_name_loop msg _ _) as [mp| | | | |]; cbn [bind] in E; try discriminate.
    destruct (pos c <=? mp); inversion E. apply cwf_set_pos; assumption.
  Qed.
  Lemma d_skip P n : triple msg P (lift_c (fun c => c_skip c n)) (fun _ _ => True).
  Proof.
    unfold lift_c. apply tdef_lift. intros c Hc. pose proof (c_skip_defined c n) as D.
    destruct (c_skip c n) as [c1| | | | |] eqn:E; cbn [bind defined] in *; try tauto; (split; [exact I|]); try discriminate.
    intros x c' H; inversion H; subst. apply c_skip_ok in E. destruct E as [-> _]. apply cwf_set_pos; assumption.
  Qed.
  Lemma d_read_name nk P : triple msg P (lift (read_name msg nk)) (fun _ _ => True).
  Proof.
    apply tdef_lift. intros c Hc. split; [apply read_name_defined; assumption|].
    unfold read_name. intros x c'.
    destruct (read_name_loop _ _ _ _ _) as [[dn mp]| | | | |]; cbn; try discriminate.
    destruct (name_wire_too_long _); [discriminate|].
    intro H; inversion H; subst. apply cwf_set_pos; assumption.
  Qed.
  Lemma d_raw_marker P p s : triple msg P (m_raw_marker msg p s) (fun _ _ => True).
  Proof.
    intros c0 Hc0 Hp. unfold m_raw_marker, c_u16, c_u32.
    assert (H : triple msg P (do* ty <- lift (fun c => c_be msg c 2); do* cl <- lift (fun c => c_be msg c 2);
                           do* ttl <- lift (fun c => c_be msg c 4); do* rdlen <- lift (fun c => c_be msg c 2);
                           mret (mkMarker p (pos c0) ty cl ttl rdlen s)) (fun _ _ => True)).
    { repeat (eapply t_bind; [apply d_be; reflexivity|intros ?]). apply t_ret. auto. }
    exact (H c0 Hc0 Hp).
  Qed.

  (* ---- header ---- *)
  Lemma t_pure {X} (P : cursor -> Prop) (F : Prop) (m : M X) Q :
    (forall c, P c -> F) -> (F -> triple msg P m Q) -> triple msg P m Q.
  Proof. intros Hf Ht c Hc Hp. apply (Ht (Hf c Hp)); assumption. Qed.

  Lemma t_beu2 k (F : Prop) : 2 <= k ->
    triple msg (fun c => F /\ rem k c) (lift (fun c => c_be_unchecked msg c 2)) (fun v c => (F /\ v <= 65535) /\ rem (k - 2) c).
  Proof.
    intros Hk c Hc [HF Hp]. unfold lift, c_be_unchecked, rem in *. unfold c_len. rewrite cursor_len_spec.
    assert (E1 : ru_be_assert (lim c - pos c) 2 = true) by (apply ru_be_assert_spec; lia). rewrite E1.
    destruct Hc as [Hl Ho].
    assert (E2 : (pos c + 2 <=? lim c) && (lim c <=? lenN msg) = true) by lia. rewrite E2. cbn [fst snd].
    split; [apply cwf_set_pos; split; assumption|]. split; [split; [assumption|apply be_val_u16]|]. cbn. lia.
  Qed.

  Lemma read_header_good c : cwf msg c ->
    cwf msg (fst (read_header msg c)) /\
    match snd (read_header msg c) with
    | Ok h => h_qd h <= 65535 /\ h_an h <= 65535 /\ h_ns h <= 65535 /\ h_ar h <= 65535
    | Err _ => True | _ => False end.
  Proof.
    intro Hc. unfold read_header. unfold c_len. rewrite cursor_len_spec.
    destruct (header_read_guard (lim c - pos c)) eqn:G; [|cbn; tauto].
    unfold header_read_guard in G. rewrite HEADER_LENGTH_spec in G.
    set (k := lim c - pos c) in *.
    assert (T : triple msg (fun c0 => True /\ rem k c0)
              (do* id <- lift (fun c => c_be_unchecked msg c 2); do* fl <- lift (fun c => c_be_unchecked msg c 2);
               do* qd <- lift (fun c => c_be_unchecked msg c 2); do* an <- lift (fun c => c_be_unchecked msg c 2);
               do* ns <- lift (fun c => c_be_unchecked msg c 2); do* ar <- lift (fun c => c_be_unchecked msg c 2);
               mret (mkHeader id fl qd an ns ar))
              (fun h _ => h_qd h <= 65535 /\ h_an h <= 65535 /\ h_ns h <= 65535 /\ h_ar h <= 65535)).
    { eapply t_bind; [apply (t_beu2 k True); lia|intros id].
      eapply t_bind; [apply (t_beu2 (k - 2)); lia|intros fl].
      eapply t_bind; [apply (t_beu2 (k - 2 - 2)); lia|intros qd].
      eapply t_bind; [apply (t_beu2 (k - 2 - 2 - 2)); lia|intros an].
      eapply t_bind; [apply (t_beu2 (k - 2 - 2 - 2 - 2)); lia|intros ns].
      eapply t_bind; [apply (t_beu2 (k - 2 - 2 - 2 - 2 - 2)); lia|intros ar].
      apply t_ret. intros c0 H. cbn. tauto. }
    destruct (T c Hc) as [H1 H2]; [split; [exact I|unfold rem; subst k; lia]|].
    split; [exact H1|]. destruct (snd _); tauto.
  Qed.

  Lemma twf_default : twf tr_default.
  Proof. unfold twf, cw, tr_default. cbn. lia. Qed.

  Theorem rd_header_good r : cwf msg (r_cur r) -> r_tr r = tr_default -> rgood (rd_header msg r).
  Proof.
    intros Hc Ht. unfold rd_header. apply rgood_latch. unfold run.
    destruct (read_header_good (r_cur r) Hc) as [H1 H2]. destruct (read_header msg (r_cur r)) as [c' x]. cbn [fst snd] in *.
    unfold rgood, RInv. destruct x as [h| | | | |]; cbn [fst snd with_cur with_tr r_cur r_tr]; try tauto.
    - split; [|exact I]. split; [assumption|]. rewrite Ht. unfold twf, cw, tr_set, tr_default, set_total. cbn. lia.
    - split; [|exact I]. split; [assumption|]. rewrite Ht. apply twf_default.
  Qed.

  (* ---- questions ---- *)
  Lemma after_question_good p : rgood p -> (forall v, snd p = Ok v -> read (qd (r_tr (fst p))) < total (qd (r_tr (fst p)))) ->
    rgood (after_question p).
  Proof.
    destruct p as [r o]. intros [[Hc Ht] Hd] Hlt. cbn [fst snd] in *. unfold after_question.
    destruct o as [v| | | | |]; cbn in Hd; try tauto.
    - destruct (question_read_ok (r_tr r) (pos (r_cur r)) Ht (Hlt v eq_refl)) as (t & E & Hw). rewrite E.
      split; [split; assumption|exact I].
    - split; [split; assumption|exact I].
  Qed.

  Lemma tdef_m_question : tdef msg (m_question msg).
  Proof.
    unfold tdef, m_question, c_u16.
    eapply t_bind; [apply d_read_name|intros n]. eapply t_bind; [apply d_be; reflexivity|intros qt].
    eapply t_bind; [apply d_be; reflexivity|intros qc]. apply t_ret. auto.
  Qed.
  Lemma tdef_m_question_ref : tdef msg (m_question_ref msg).
  Proof.
    intros c Hc _. unfold m_question_ref, c_u16.
    assert (H : tdef msg (do* _ <- lift_c (skip_name msg); do* qt <- lift (fun c0 => c_be msg c0 2);
                          do* qc <- lift (fun c0 => c_be msg c0 2); mret (OQuestionRef c qt qc))).
    { unfold tdef. eapply t_bind; [apply d_skip_name|intros ?]. eapply t_bind; [apply d_be; reflexivity|intros qt].
      eapply t_bind; [apply d_be; reflexivity|intros qc]. apply t_ret. auto. }
    exact (H c Hc I).
  Qed.

  Theorem rd_question_good single as_ref r : RInv r -> rgood (rd_question msg single as_ref r).
  Proof.
    intros Hi. pose proof Hi as [Hc Ht]. unfold rd_question. destruct (r_done r); [split; [assumption|exact I]|].
    rewrite (questions_left_ok _ Ht).
    match goal with |- context [if ?b then _ else _] => destruct b eqn:Eb end; [split; [assumption|destruct single; exact I]|].
    assert (Hlt : read (qd (r_tr r)) < total (qd (r_tr r))).
    { destruct single; [unfold q_not_single in Eb|unfold q_none_left in Eb]; lia. }
    apply after_question_good.
    - destruct as_ref; apply rgood_run; try assumption; [apply tdef_m_question_ref|apply tdef_m_question].
    - intros v _. unfold run. destruct as_ref;
        match goal with |- context [?m (r_cur r)] => destruct (m (r_cur r)) end; cbn; exact Hlt.
  Qed.

  Lemma skip_questions_loop_good fuel : forall r, RInv r ->
    (N.to_nat (total (qd (r_tr r)) - read (qd (r_tr r))) < fuel)%nat -> rgood (skip_questions_loop msg fuel r).
  Proof.
    induction fuel as [|f IH]; intros r Hi Hf; [lia|]. pose proof Hi as [Hc Ht]. cbn [skip_questions_loop].
    rewrite (questions_left_ok _ Ht).
    destruct (0 <? total (qd (r_tr r)) - read (qd (r_tr r))) eqn:E; [|split; [assumption|exact I]].
    assert (Hm : tdef msg (m_skip_question msg)).
    { unfold tdef, m_skip_question. eapply t_bind; [apply d_skip_name|intros ?]. apply d_skip. }
    pose proof (rgood_run r _ Hi Hm) as [[Hc1 Ht1] Hd1]. unfold run in *.
    destruct (m_skip_question msg (r_cur r)) as [c1 x]. cbn [fst snd with_cur r_cur r_tr] in *.
    destruct x as [u| | | | |]; cbn in Hd1; try tauto.
    - destruct (question_read_ok (r_tr r) (pos c1) Ht ltac:(lia)) as (t & Eq & Hw).
      cbn [r_tr with_cur r_cur]. rewrite Eq. apply IH.
      + split; assumption.
      + cbn [r_tr with_tr]. rewrite (question_read_qd _ _ _ Eq). cbn [total read]. lia.
    - split; [split; assumption|exact I].
  Qed.

  Theorem rd_skip_questions_good r : RInv r -> rgood (rd_skip_questions msg r).
  Proof.
    intro Hi. unfold rd_skip_questions. destruct (r_done r); [split; [assumption|exact I]|].
    apply rgood_latch, rgood_unit_obs. unfold skip_questions_impl, q_fuel. apply skip_questions_loop_good; [assumption|].
    destruct Hi as [_ ((A & _) & _)]. lia.
  Qed.

  (* ---- records ---- *)
  (* the marker a header call returns is usable by the data call that follows *)
  Definition mk_ok (r : reader) (mk : marker) : Prop :=
    read (tget (secs (r_tr r)) (m_section mk)) < total (tget (secs (r_tr r)) (m_section mk)).

  Lemma calc_section_good r : RInv r ->
    rgood (calc_section r) /\
    (forall r1 s, calc_section r = (r1, Ok s) ->
       r_cur r1 = r_cur r /\ r_done r1 = r_done r /\ secs (r_tr r1) = secs (r_tr r) /\ qd (r_tr r1) = qd (r_tr r) /\
       read (tget (secs (r_tr r)) s) < total (tget (secs (r_tr r)) s)).
  Proof.
    intros [Hc Ht]. unfold calc_section. pose proof (next_section_spec (r_tr r) (pos (r_cur r)) Ht) as H.
    destruct (next_section (r_tr r) (pos (r_cur r))) as [t so]. destruct H as (A & B & C & D).
    split.
    - split; [split; assumption|]. destruct so; exact I.
    - intros r1 s E. destruct so as [s0|]; inversion E; subst. cbn. destruct D. tauto.
  Qed.

  (* reading the fixed part of a record header leaves the cursor at the record data *)
  Lemma raw_marker_pos p s c c' mk : m_raw_marker msg p s c = (c', Ok mk) ->
    pos c' = rdata_pos mk /\ m_section mk = s.
  Proof.
    unfold m_raw_marker, c_u16, c_u32, mbind, mret, lift.
    destruct (c_be msg c 2) as [[ty c1]| | | | |] eqn:E1; try discriminate.
    destruct (c_be msg c1 2) as [[cl c2]| | | | |] eqn:E2; try discriminate.
    destruct (c_be msg c2 4) as [[ttl c3]| | | | |] eqn:E3; try discriminate.
    destruct (c_be msg c3 2) as [[rdl c4]| | | | |] eqn:E4; try discriminate.
    intro H; inversion H; subst. apply c_be_ok in E1, E2, E3, E4.
    destruct E1 as (_ & _ & _ & ->), E2 as (_ & _ & _ & ->), E3 as (_ & _ & _ & ->), E4 as (_ & _ & _ & ->).
    unfold rdata_pos, TYPE_TO_RDATA_OFFSET. cbn [m_type_off m_section pos c_set_pos]. split; [lia|reflexivity].
  Qed.

  Lemma run_frame {X} r (m : M X) : r_tr (fst (run r m)) = r_tr r /\ r_done (fst (run r m)) = r_done r.
  Proof. unfold run. destruct (m (r_cur r)). cbn. tauto. Qed.

  (* the three header flavours share this shape *)
  Lemma header_call_good {X} r (body : reader -> N -> M X) :
    RInv r -> (forall r1 s, tdef msg (body r1 s)) ->
    rgood (bind2 (calc_section r) (fun r1 s => run r1 (body r1 s))) /\
    (forall r' x, bind2 (calc_section r) (fun r1 s => run r1 (body r1 s)) = (r', Ok x) ->
       exists r1 s c', calc_section r = (r1, Ok s) /\ body r1 s (r_cur r1) = (c', Ok x) /\ r' = with_cur r1 c').
  Proof.
    intros Hi Hb. destruct (calc_section_good r Hi) as [Hg Hs]. split.
    - apply rgood_bind2; [assumption|]. intros r1 s E Hi1. apply rgood_run; [assumption|apply Hb].
    - intros r' x. unfold bind2. destruct (calc_section r) as [r1 o] eqn:Ec. destruct o as [s| | | | |]; try discriminate.
      unfold run. destruct (body r1 s (r_cur r1)) as [c' y] eqn:Eb. intro H; inversion H; subst.
      exists r1, s, c'. repeat split; assumption.
  Qed.

  Lemma latch_ok {X} (p : reader * res X) r x : latch p = (r, Ok x) -> p = (r, Ok x).
  Proof. unfold latch. destruct p as [r0 y]; destruct y; cbn; intro H; inversion H; reflexivity. Qed.

  Theorem rd_marker_good r : RInv r ->
    rgood (rd_marker msg r) /\
    (forall r' mk, rd_marker msg r = (r', Ok (OMarker mk)) -> mk_ok r' mk /\ pos (r_cur r') = rdata_pos mk).
  Proof.
    intro Hi. unfold rd_marker. destruct (r_done r); [split; [split; [assumption|exact I]|discriminate]|].
    set (body := fun (_ : reader) s => do* _ <- lift_c (skip_name msg); m_raw_marker msg (pos (r_cur r)) s).
    assert (Em : marker_impl msg r = bind2 (calc_section r) (fun r1 s => run r1 (body r1 s))) by reflexivity.
    rewrite Em. clear Em.
    destruct (header_call_good r body Hi) as [Hg Hs].
    { intros r1 s. unfold tdef, body. eapply t_bind; [apply d_skip_name|intros ?]. apply d_raw_marker. }
    split.
    - apply rgood_latch, rgood_bind2; [exact Hg|]. intros r1 m _ Hi1. split; [assumption|exact I].
    - intros r' mk H. apply latch_ok in H.
      destruct (bind2 (calc_section r) (fun r1 s => run r1 (body r1 s))) as [r2 o] eqn:E.
      unfold bind2 in H. destruct o as [m| | | | |]; try discriminate.
      inversion H; subst. destruct (Hs _ _ eq_refl) as (r1 & s & c' & Ec & Eb & ->).
      destruct (calc_section_good r Hi) as [_ Hcs]. destruct (Hcs _ _ Ec) as (A1 & A2 & A3 & A4 & A5).
      unfold body, mbind, lift_c, lift in Eb. destruct (skip_name msg (r_cur r1)) as [c1| | | | |]; cbn [bind] in Eb; try discriminate.
      destruct (m_raw_marker msg (pos (r_cur r)) s c1) as [c2 y] eqn:Em. destruct y; inversion Eb; subst.
      destruct (raw_marker_pos _ _ _ _ _ Em) as [P1 P2]. unfold mk_ok. cbn [r_tr with_cur r_cur]. rewrite P2, A3. split; assumption.
  Qed.

  Theorem rd_header_ref_good r : RInv r ->
    rgood (rd_header_ref msg r) /\
    (forall r' nref mk, rd_header_ref msg r = (r', Ok (OHeaderRef nref mk)) -> mk_ok r' mk /\ pos (r_cur r') = rdata_pos mk).
  Proof.
    intro Hi. unfold rd_header_ref, header_ref_impl. destruct (r_done r); [split; [split; [assumption|exact I]|discriminate]|].
    set (body := fun (r1 : reader) s => do* _ <- lift_c (skip_name msg); do* m <- m_raw_marker msg (pos (r_cur r)) s; mret (OHeaderRef (r_cur r1) m)).
    destruct (header_call_good r body Hi) as [Hg Hs].
    { intros r1 s. unfold tdef, body. eapply t_bind; [apply d_skip_name|intros ?]. eapply t_bind; [apply d_raw_marker|intros ?]. apply t_ret; auto. }
    split; [apply rgood_latch; exact Hg|].
    intros r' nref mk H. apply latch_ok in H. destruct (Hs _ _ H) as (r1 & s & c' & Ec & Eb & ->).
    destruct (calc_section_good r Hi) as [_ Hcs]. destruct (Hcs _ _ Ec) as (A1 & A2 & A3 & A4 & A5).
    unfold body, mbind, mret, lift_c, lift in Eb. destruct (skip_name msg (r_cur r1)) as [c1| | | | |]; cbn [bind] in Eb; try discriminate.
    destruct (m_raw_marker msg (pos (r_cur r)) s c1) as [c2 y] eqn:Em. destruct y; inversion Eb; subst.
    destruct (raw_marker_pos _ _ _ _ _ Em) as [P1 P2]. unfold mk_ok. cbn [r_tr with_cur r_cur]. rewrite P2, A3. split; assumption.
  Qed.

  Theorem rd_header_n_good nk r : RInv r ->
    rgood (rd_header_n msg nk r) /\
    (forall r' n mk, rd_header_n msg nk r = (r', Ok (OHeaderN n mk)) -> mk_ok r' mk /\ pos (r_cur r') = rdata_pos mk).
  Proof.
    intro Hi. unfold rd_header_n, header_n_impl. destruct (r_done r); [split; [split; [assumption|exact I]|discriminate]|].
    set (body := fun (_ : reader) s => do* n <- lift (read_name msg nk); do* m <- m_raw_marker msg (pos (r_cur r)) s; mret (OHeaderN n m)).
    destruct (header_call_good r body Hi) as [Hg Hs].
    { intros r1 s. unfold tdef, body. eapply t_bind; [apply d_read_name|intros ?]. eapply t_bind; [apply d_raw_marker|intros ?]. apply t_ret; auto. }
    split; [apply rgood_latch; exact Hg|].
    intros r' n mk H. apply latch_ok in H. destruct (Hs _ _ H) as (r1 & s & c' & Ec & Eb & ->).
    destruct (calc_section_good r Hi) as [_ Hcs]. destruct (Hcs _ _ Ec) as (A1 & A2 & A3 & A4 & A5).
    unfold body, mbind, mret, lift in Eb. destruct (read_name msg nk (r_cur r1)) as [[nm c1]| | | | |]; try discriminate.
    destruct (m_raw_marker msg (pos (r_cur r)) s c1) as [c2 y] eqn:Em. destruct y; inversion Eb; subst.
    destruct (raw_marker_pos _ _ _ _ _ Em) as [P1 P2]. unfold mk_ok. cbn [r_tr with_cur r_cur]. rewrite P2, A3. split; assumption.
  Qed.

  (* ---- data calls ---- *)
  Lemma after_data_good mk p : rgood p -> (forall v, snd p = Ok v -> mk_ok (fst p) mk) -> rgood (after_data mk p).
  Proof.
    destruct p as [r o]. intros [[Hc Ht] Hd] Hm. cbn [fst snd] in *. unfold after_data.
    destruct o as [v| | | | |]; cbn in Hd; try tauto.
    - destruct (section_read_ok (r_tr r) (m_section mk) (pos (r_cur r)) Ht (Hm v eq_refl)) as (t & E & Hw). rewrite E.
      split; [split; assumption|exact I].
    - split; [split; assumption|exact I].
  Qed.

  Lemma data_call_good {X} mk r (m : M X) (k : X -> obs) : RInv r -> mk_ok r mk -> tdef msg m ->
    rgood (after_data mk (run r (do* x <- m; mret (k x)))).
  Proof.
    intros Hi Hm Hd. apply after_data_good.
    - apply rgood_run; [assumption|]. unfold tdef. eapply t_bind; [exact Hd|intros x]. apply t_ret; auto.
    - intros v _. unfold mk_ok in *. destruct (run_frame r (do* x <- m; mret (k x))) as [F _]. rewrite F. exact Hm.
  Qed.

  Theorem rd_skip_data_good mk r : RInv r -> mk_ok r mk -> pos (r_cur r) = rdata_pos mk -> rgood (rd_skip_data mk r).
  Proof.
    intros Hi Hm Hp. unfold rd_skip_data. rewrite Hp, N.eqb_refl. cbn [negb].
    destruct (r_done r); [split; [assumption|exact I]|]. unfold skip_record_data_impl.
    apply (data_call_good mk r (lift_c (fun c => c_skip c (m_rdlen mk))) (fun _ => OUnit) Hi Hm). apply d_skip.
  Qed.

  Theorem rd_data_bytes_good mk r : RInv r -> mk_ok r mk -> pos (r_cur r) = rdata_pos mk -> rgood (rd_data_bytes msg mk r).
  Proof.
    intros Hi Hm Hp. unfold rd_data_bytes. rewrite Hp, N.eqb_refl. cbn [negb].
    destruct (r_done r); [split; [assumption|exact I]|].
    apply after_data_good.
    - apply rgood_run; [assumption|]. unfold tdef. apply tdef_lift. intros c Hc. pose proof (c_slice_defined msg c (m_rdlen mk) Hc) as D.
      destruct (c_slice msg c (m_rdlen mk)) as [[[lo bs] c2]| | | | |] eqn:E; cbn [bind defined] in *; try tauto;
        (split; [exact I|]); try discriminate.
      intros x c' H; inversion H; subst. apply c_slice_ok in E. destruct E as (_ & _ & _ & _ & ->). apply cwf_set_pos; assumption.
    - intros v _. unfold mk_ok in *. match goal with |- context [run r ?m] => destruct (run_frame r m) as [F _] end. rewrite F. exact Hm.
  Qed.

  Theorem rd_data_good ty mk r : RInv r -> mk_ok r mk -> pos (r_cur r) = rdata_pos mk -> rgood (rd_data msg ty mk r).
  Proof.
    intros Hi Hm Hp. unfold rd_data. destruct (read_rdata msg ty (m_rdlen mk)) as [m|] eqn:E; [|split; [assumption|exact I]].
    rewrite Hp, N.eqb_refl. cbn [negb]. destruct (r_done r); [split; [assumption|exact I]|].
    apply (data_call_good mk r m (fun d => ORData d) Hi Hm). eapply read_rdata_defined; exact E.
  Qed.

  Theorem rd_opt_good mk r : RInv r -> mk_ok r mk -> pos (r_cur r) = rdata_pos mk -> m_rtype mk = T_OPT -> rgood (rd_opt mk r).
  Proof.
    intros Hi Hm Hp Ht. unfold rd_opt. destruct (r_done r); [split; [assumption|exact I]|].
    rewrite Hp, N.eqb_refl, Ht, N.eqb_refl. cbn [negb].
    apply (data_call_good mk r (lift_c (fun c => c_skip c (m_rdlen mk))) (fun _ => OOpt (opt_from_msg (m_rclass mk) (m_ttl mk))) Hi Hm). apply d_skip.
  Qed.

  (* ---- seek ---- *)
  Definition lower_done (tr : tracker) (s : N) : Prop :=
    forall s', s' < s -> read (tget (secs tr) s') = total (tget (secs tr) s').

  Lemma marker_impl_spec r s : RInv r -> s < 3 -> lower_done (r_tr r) s ->
    read (tget (secs (r_tr r)) s) < total (tget (secs (r_tr r)) s) ->
    rgood (marker_impl msg r) /\
    (forall r1 mk, marker_impl msg r = (r1, Ok mk) ->
       secs (r_tr r1) = secs (r_tr r) /\ m_section mk = s /\ r_done r1 = r_done r).
  Proof.
    intros Hi Hs Hlow Hun.
    set (body := fun (_ : reader) s => do* _ <- lift_c (skip_name msg); m_raw_marker msg (pos (r_cur r)) s).
    assert (Em : marker_impl msg r = bind2 (calc_section r) (fun r1 s => run r1 (body r1 s))) by reflexivity.
    rewrite Em. clear Em.
    destruct (header_call_good r body Hi) as [Hg Hsp].
    { intros r1 s0. unfold tdef, body. eapply t_bind; [apply d_skip_name|intros ?]. apply d_raw_marker. }
    split; [exact Hg|]. intros r1 mk H. destruct (Hsp _ _ H) as (r0 & s0 & c' & Ec & Eb & ->).
    destruct (calc_section_good r Hi) as [_ Hcs]. destruct (Hcs _ _ Ec) as (A1 & A2 & A3 & A4 & A5).
    assert (Hs0 : s0 = s).
    { unfold calc_section in Ec. pose proof (next_section_first (r_tr r) (pos (r_cur r)) s Hs Hlow Hun) as Hn.
      destruct (next_section (r_tr r) (pos (r_cur r))) as [t so]. cbn in Hn. subst so. inversion Ec; reflexivity. }
    subst s0.
    unfold body, mbind, lift_c, lift in Eb. destruct (skip_name msg (r_cur r0)) as [c1| | | | |]; cbn [bind] in Eb; try discriminate.
    destruct (m_raw_marker msg (pos (r_cur r)) s c1) as [c2 y] eqn:Em. destruct y; inversion Eb; subst.
    destruct (raw_marker_pos _ _ _ _ _ Em) as [P1 P2]. cbn [r_tr with_cur r_done]. repeat split; assumption.
  Qed.

  Lemma skip_section_loop_good fuel s : forall r, RInv r -> s < 3 -> lower_done (r_tr r) s ->
    (N.to_nat (total (tget (secs (r_tr r)) s) - read (tget (secs (r_tr r)) s)) < fuel)%nat ->
    rgood (skip_section_loop msg fuel s r) /\
    (forall r', skip_section_loop msg fuel s r = (r', Ok tt) -> lower_done (r_tr r') (s + 1)).
  Proof.
    induction fuel as [|f IH]; intros r Hi Hs Hlow Hf; [lia|]. pose proof Hi as [Hc Ht]. cbn [skip_section_loop].
    rewrite (records_left_in_ok _ s Ht). pose proof (cw_tget _ s Ht) as [Hcw _].
    destruct (0 <? total (tget (secs (r_tr r)) s) - read (tget (secs (r_tr r)) s)) eqn:E.
    2: { split; [split; [assumption|exact I]|]. intros r' H; inversion H; subst.
         intros s' Hs'. destruct (N.eq_dec s' s) as [->|Hne]; [lia|apply Hlow; lia]. }
    destruct (marker_impl_spec r s Hi Hs Hlow ltac:(lia)) as [Hg Hsp]. unfold bind2.
    destruct (marker_impl msg r) as [r1 o] eqn:Em. destruct Hg as [Hi1 Hd1]. cbn [fst snd] in *.
    destruct o as [mk| | | | |]; cbn in Hd1; try tauto; [|split; [split; [assumption|exact I]|intros ? HH; discriminate HH]].
    destruct (Hsp r1 mk eq_refl) as (S1 & S2 & S3).
    assert (Hmk : mk_ok r1 mk) by (unfold mk_ok; rewrite S1, S2; lia).
    assert (Hg2 : rgood (skip_record_data_impl mk r1)).
    { unfold skip_record_data_impl. apply (data_call_good mk r1 (lift_c (fun c => c_skip c (m_rdlen mk))) (fun _ => OUnit) Hi1 Hmk). apply d_skip. }
    destruct (skip_record_data_impl mk r1) as [r2 o2] eqn:E2. destruct Hg2 as [Hi2 Hd2]. cbn [fst snd] in *.
    destruct o2 as [v| | | | |]; cbn in Hd2; try tauto; [|split; [split; [assumption|exact I]|intros ? HH; discriminate HH]].
    (* the tracker after the record: section s advanced by one *)
    assert (Hsec : secs (r_tr r2) = tset (secs (r_tr r)) s (mkCounts (total (tget (secs (r_tr r)) s)) (read (tget (secs (r_tr r)) s) + 1))).
    { unfold skip_record_data_impl, after_data, run in E2.
      destruct ((do* _ <- lift_c (fun c => c_skip c (m_rdlen mk)); mret OUnit) (r_cur r1)) as [c' x]. destruct x; try discriminate.
      cbn [with_cur r_tr r_cur] in E2.
      destruct (section_read (r_tr r1) (m_section mk) (pos c')) as [t| | | | |] eqn:Es; try discriminate.
      injection E2 as Er _. rewrite <- Er. cbn [r_tr with_tr]. destruct (section_read_secs _ _ _ _ Es) as [F _]. rewrite F, S1, S2. reflexivity. }
    apply IH; try assumption.
    - intros s' Hs'. rewrite Hsec, tget_tset_other by lia. apply Hlow; assumption.
    - rewrite Hsec, tget_tset_same by assumption. cbn [total read]. lia.
  Qed.

  Theorem rd_seek_good s r : RInv r -> s < 3 -> rgood (rd_seek msg s r).
  Proof.
    intros Hi Hs. pose proof Hi as [Hc Ht]. unfold rd_seek. destruct (r_done r); [split; [assumption|exact I]|].
    destruct (section_offset (r_tr r) s) as [off|].
    { split; [|exact I]. split; cbn; [apply cwf_set_pos; assumption|apply twf_seek; assumption]. }
    destruct (seek_not_at_header_end _); [split; [assumption|exact I]|].
    apply rgood_latch, rgood_unit_obs. unfold seek_impl.
    apply rgood_bind2.
    { unfold skip_questions_impl, q_fuel. apply skip_questions_loop_good; [assumption|]. destruct Ht as ((A & _) & _). lia. }
    intros r1 u _ Hi1.
    assert (L0 : lower_done (r_tr r1) 0) by (intros s' H'; lia).
    assert (F0 : forall r0, RInv r0 -> (N.to_nat (total (tget (secs (r_tr r0)) 0) - read (tget (secs (r_tr r0)) 0)) < s_fuel r0 0)%nat)
      by (intros r0 _; unfold s_fuel; lia).
    assert (s = 0 \/ s = 1 \/ s = 2) as [-> | [-> | ->]] by lia.
    - split; [assumption|exact I].
    - apply (skip_section_loop_good (s_fuel r1 0) 0 r1 Hi1 ltac:(lia) L0 (F0 r1 Hi1)).
    - destruct (skip_section_loop_good (s_fuel r1 0) 0 r1 Hi1 ltac:(lia) L0 (F0 r1 Hi1)) as [Hg Hd].
      apply rgood_bind2; [exact Hg|]. intros r2 [] E2 Hi2.
      apply (skip_section_loop_good (s_fuel r2 1) 1 r2 Hi2 ltac:(lia) (Hd r2 E2)). unfold s_fuel. lia.
  Qed.

  (* ---- counts and random access ---- *)
  Theorem counts_good r : RInv r ->
    defined (rd_questions_count r) /\ defined (rd_records_count r) /\ forall s, defined (rd_records_count_in s r).
  Proof.
    intros [_ Ht]. unfold rd_questions_count, rd_records_count, rd_records_count_in. destruct (negb (r_done r)); [|repeat split; intros; exact I].
    rewrite (questions_left_ok _ Ht). pose proof (records_left_defined _ Ht) as D.
    repeat split; try exact I.
    - destruct (records_left (r_tr r)); cbn in *; tauto.
    - intro s. rewrite (records_left_in_ok _ s Ht). exact I.
  Qed.

  Lemma cwf_clone_r r p : cwf msg (r_cur r) -> cwf msg (c_clone_with_pos (r_cur r) p).
  Proof. unfold cwf, c_clone_with_pos. intros [H1 H2]. cbn. destruct (orig (r_cur r)); split; try tauto; lia. Qed.

  Theorem random_access_good ty mk r : RInv r ->
    defined (rd_bytes_at msg mk r) /\ defined (rd_data_at msg ty mk r) /\ defined (rd_name_ref_at mk r).
  Proof.
    intros [Hc _]. repeat split; try exact I.
    - unfold rd_bytes_at. pose proof (c_slice_defined msg _ (m_rdlen mk) (cwf_clone_r r (rdata_pos mk) Hc)) as D.
      destruct (c_slice msg _ _) as [[[o b] c]| | | | |]; cbn in *; tauto.
    - unfold rd_data_at. destruct (read_rdata msg ty (m_rdlen mk)) as [m|] eqn:E; [|exact I].
      destruct (read_rdata_defined msg ty _ m E _ (cwf_clone_r r (rdata_pos mk) Hc) I) as [_ D].
      destruct (snd (m _)); cbn in *; tauto.
  Qed.
End R.
