(* Proofs/NameText.v — the text-name checker accepts exactly the valid name texts of
   Spec/NameText.v; parsing keeps the spelling; every decoded name is a valid text name. *)
From Coq Require Import ZArith.
From RsdnsModel Require Import Base GenConst GenNames GenSpec Cursor Names Labels.
From RsdnsModel.Spec Require Import WireName NameText.
From RsdnsModel.Proofs Require Import CursorSafe ListN LabelsTotal LabelsSound.
From Coq Require Import ZifyBool ZifyN ZifyNat.
Open Scope N_scope.

Lemma split_dots_nonempty rest : forall cur, split_dots rest cur <> [].
Proof. induction rest as [|b rest IH]; intros cur; cbn; [discriminate|]. destruct (bN b =? 46); [discriminate|apply IH]. Qed.

(* ---- the index loop of check_name_bytes computes split_dots ---- *)
Section Loop.
  Variable name : list byte.

  (* state of the loop after consuming a prefix: j = |prefix|, i = start of the current label *)
  Lemma name_loop_split : forall rest pre cur (i : N) ds,
    name = pre ++ rev cur ++ rest ->
    i = lenN pre -> Forall (fun b => bN b <> 46) cur ->
    (ds = None <-> pre = []) -> (forall d, ds = Some d -> d = i) ->
    match name_loop (fun (_ : unit) l => check_label_bytes l) name rest (lenN pre + lenN cur) i ds tt with
    | Ok (ds', _) =>
      let ps := split_dots rest cur in
      Forall (fun l => check_label_bytes l = Ok tt) (removelast ps) /\
      (ds' = None <-> (pre = [] /\ length ps = 1%nat)) /\
      (forall d, ds' = Some d -> d + lenN (last ps []) = lenN name)
    | Err e => exists l, In l (removelast (split_dots rest cur)) /\ check_label_bytes l <> Ok tt
    | _ => False
    end.
  Proof.
    induction rest as [|b rest IH]; intros pre cur i ds Hn Hi Hc Hds Hd; cbn [name_loop split_dots].
    - cbn. split; [constructor|]. split.
      + rewrite Hds. split; [intro; split; [assumption|reflexivity]|tauto].
      + intros d Hdd. rewrite (Hd d Hdd). subst i. rewrite Hn, app_nil_r, !lenN_app. reflexivity.
    - rewrite name_is_dot_spec. destruct (bN b =? 46) eqn:Eb.
      + (* a dot closes the label [rev cur] = name[i..j] *)
        assert (Hsub : subN name i (lenN pre + lenN cur - i) = rev cur).
        { subst i. replace (lenN pre + lenN cur - lenN pre) with (lenN (rev cur)) by (rewrite lenN_rev; lia).
          rewrite Hn. apply subN_mid. }
        assert (Hle : (i <=? lenN pre + lenN cur) && (lenN pre + lenN cur <=? lenN name) = true).
        { subst i. rewrite Hn, !lenN_app, lenN_rev. lia. }
        rewrite Hle, Hsub.
        destruct (check_label_ok_or_err (rev cur)) as [Hok|[e He]]; rewrite ?Hok, ?He; cbn [bind].
        * specialize (IH (pre ++ rev cur ++ [b]) [] (lenN pre + lenN cur + 1) (Some (lenN pre + lenN cur + 1))).
          replace (lenN (pre ++ rev cur ++ [b]) + lenN (@nil byte)) with (lenN pre + lenN cur + 1) in IH
            by (rewrite !lenN_app, lenN_cons, !lenN_nil, lenN_rev; lia).
          assert (Hpre : lenN pre + lenN cur + 1 = lenN (pre ++ rev cur ++ [b]))
            by (rewrite !lenN_app, lenN_cons, !lenN_nil, lenN_rev; lia).
          specialize (IH ltac:(rewrite Hn, <- !app_assoc; reflexivity) Hpre ltac:(constructor)
                         ltac:(split; [discriminate|intro H; apply app_eq_nil in H; destruct H as [_ H]; apply app_eq_nil in H; destruct H; discriminate])
                         ltac:(intros d H; inversion H; reflexivity)).
          destruct (name_loop _ name rest _ _ _ tt) as [[ds' u]| | | | |]; try contradiction.
          -- destruct IH as (H1 & H2 & H3). cbn [removelast].
             destruct (split_dots rest []) eqn:Es; [exfalso; eapply split_dots_nonempty; eassumption|].
             split; [constructor; assumption|]. split.
             ++ split; [intro H; apply H2 in H; destruct H as [H _]; apply app_eq_nil in H; destruct H as [_ H]; apply app_eq_nil in H; destruct H; discriminate|intros [_ H]; cbn in H; discriminate].
             ++ intros d Hd'. cbn [last]. destruct l0; [|]; apply (H3 d Hd').
          -- destruct IH as (l & Hin & Hbad). exists l. cbn [removelast].
             destruct (split_dots rest []) eqn:Es; [contradiction|]. split; [right; assumption|assumption].
        * exists (rev cur). cbn [removelast].
          destruct (split_dots rest []) eqn:Es; [exfalso; eapply split_dots_nonempty; eassumption|].
          split; [left; reflexivity|congruence].
      + (* an ordinary byte extends the current label *)
        specialize (IH pre (b :: cur) i ds).
        replace (lenN pre + lenN (b :: cur)) with (lenN pre + lenN cur + 1) in IH by (rewrite lenN_cons; lia).
        apply IH; try assumption.
        * rewrite Hn. cbn [rev]. rewrite <- !app_assoc. reflexivity.
        * constructor; [lia|assumption].
  Qed.
End Loop.

(* ---- pieces and joining ---- *)
Fixpoint join_dots (ps : list (list byte)) : list byte :=
  match ps with
  | [] => []
  | [p] => p
  | p :: rest => p ++ [x2e] ++ join_dots rest
  end.

Lemma join_split s : forall cur, join_dots (split_dots s cur) = rev cur ++ s.
Proof.
  induction s as [|b s IH]; intros cur; cbn [split_dots].
  - cbn. rewrite app_nil_r. reflexivity.
  - destruct (bN b =? 46) eqn:E.
    + assert (b = x2e) by (destruct b; try reflexivity; vm_compute in E; discriminate). subst b.
      specialize (IH []). cbn [rev app] in IH.
      destruct (split_dots s []) eqn:Es; [exfalso; eapply split_dots_nonempty; eassumption|].
      change (join_dots (rev cur :: l :: l0)) with (rev cur ++ [x2e] ++ join_dots (l :: l0)). rewrite IH. reflexivity.
    + rewrite IH. cbn [rev]. rewrite <- app_assoc. reflexivity.
Qed.

Lemma pieces_no_dot s : forall cur, Forall (fun b => bN b <> 46) cur ->
  Forall (Forall (fun b => bN b <> 46)) (split_dots s cur).
Proof.
  induction s as [|b s IH]; intros cur Hc; cbn [split_dots].
  - constructor; [apply Forall_rev; assumption|constructor].
  - destruct (bN b =? 46) eqn:E.
    + constructor; [apply Forall_rev; assumption|]. apply IH. constructor.
    + apply IH. constructor; [lia|assumption].
Qed.

Lemma join_last ps : ps <> [] -> exists pre, join_dots ps = pre ++ last ps [].
Proof.
  induction ps as [|p ps IH]; intro H; [congruence|]. destruct ps as [|q ps].
  - exists []. reflexivity.
  - destruct IH as [pre Hpre]; [discriminate|]. exists (p ++ [x2e] ++ pre).
    change (join_dots (p :: q :: ps)) with (p ++ [x2e] ++ join_dots (q :: ps)).
    change (last (p :: q :: ps) []) with (last (q :: ps) []). rewrite Hpre, <- !app_assoc. reflexivity.
Qed.

Lemma lenN_join ps : ps <> [] ->
  lenN (join_dots ps) + 1 = fold_right (fun l acc => lenN l + 1 + acc) 0 ps.
Proof.
  induction ps as [|p ps IH]; intro H; [congruence|]. destruct ps as [|q ps].
  - cbn. lia.
  - change (join_dots (p :: q :: ps)) with (p ++ [x2e] ++ join_dots (q :: ps)).
    change (fold_right (fun l acc => lenN l + 1 + acc) 0 (p :: q :: ps)) with (lenN p + 1 + fold_right (fun l acc => lenN l + 1 + acc) 0 (q :: ps)).
    rewrite !lenN_app, lenN_cons, lenN_nil. specialize (IH ltac:(discriminate)). lia.
Qed.

Lemma wire_len_fold ls : wire_len ls = fold_right (fun l acc => lenN l + 1 + acc) 0 ls + 1.
Proof. unfold wire_len. induction ls as [|l ls IH]; cbn; [reflexivity|]. rewrite IH. lia. Qed.

Lemma fold_removelast (ps : list (list byte)) : ps <> [] -> last ps [] = [] ->
  fold_right (fun l acc => lenN l + 1 + acc) 0 ps = fold_right (fun l acc => lenN l + 1 + acc) 0 (removelast ps) + 1.
Proof.
  induction ps as [|p ps IH]; intros H Hl; [congruence|]. destruct ps as [|q ps].
  - cbn in *. subst. reflexivity.
  - change (fold_right (fun l acc => lenN l + 1 + acc) 0 (p :: q :: ps)) with (lenN p + 1 + fold_right (fun l acc => lenN l + 1 + acc) 0 (q :: ps)).
    change (removelast (p :: q :: ps)) with (p :: removelast (q :: ps)).
    change (last (p :: q :: ps) []) with (last (q :: ps) []) in Hl.
    rewrite IH; [|discriminate|assumption]. cbn [fold_right]. lia.
Qed.

Lemma suffix_subN {A} (pre suf : list A) : subN (pre ++ suf) (lenN pre) (lenN suf) = suf.
Proof. rewrite <- (app_nil_r suf) at 1. apply subN_mid. Qed.

Lemma Forall_removelast {A} (P : A -> Prop) l : Forall P l -> Forall P (removelast l).
Proof. induction 1 as [|a l Ha Hl IH]; cbn; [constructor|]. destruct l; [constructor|constructor; assumption]. Qed.

Lemma forallb_removelast_last (f : list byte -> bool) ps : ps <> [] ->
  forallb f ps = forallb f (removelast ps) && f (last ps []).
Proof.
  induction ps as [|p ps IH]; intro H; [congruence|]. destruct ps as [|q ps].
  - cbn. rewrite Bool.andb_true_r. reflexivity.
  - change (forallb f (p :: q :: ps)) with (f p && forallb f (q :: ps)).
    change (removelast (p :: q :: ps)) with (p :: removelast (q :: ps)).
    change (last (p :: q :: ps) []) with (last (q :: ps) []).
    rewrite IH by discriminate. cbn [forallb]. rewrite Bool.andb_assoc. reflexivity.
Qed.

Lemma Forall_check_forallb ls : Forall (fun l => check_label_bytes l = Ok tt) ls <-> forallb label_ok ls = true.
Proof.
  rewrite forallb_forall, Forall_forall. split; intros H x Hx; apply check_label_ok, H; assumption.
Qed.

Lemma join_ends_with_dot rl : rl <> [] -> last (join_dots (rl ++ [[]])) x00 = x2e.
Proof.
  induction rl as [|p rl IH]; intro H; [congruence|]. destruct rl as [|q r].
  - change (join_dots ([p] ++ [[]])) with (p ++ [x2e]). apply last_last.
  - specialize (IH ltac:(discriminate)).
    change (join_dots ((p :: q :: r) ++ [[]])) with (p ++ [x2e] ++ join_dots ((q :: r) ++ [[]])).
    assert (Hne : join_dots ((q :: r) ++ [[]]) <> []).
    { intro E. rewrite E in IH. cbn in IH. discriminate. }
    rewrite last_app' by (intro E; apply app_eq_nil in E; destruct E; discriminate).
    rewrite last_app' by assumption. exact IH.
Qed.

(* ---- check_name_bytes accepts exactly the valid texts ---- *)
Theorem check_name_valid s : check_name_bytes s = Ok tt <-> valid_text s = true.
Proof.
  unfold check_name_bytes, valid_text.
  destruct s as [|b0 s0] eqn:Es; [split; discriminate|]. rewrite <- Es.
  assert (Hne : s <> []) by (subst; discriminate).
  change (is_root_text s) with (is_root s).
  destruct (is_root s) eqn:Er; [split; reflexivity|].
  (* run the loop *)
  unfold name_labels.
  pose proof (name_loop_split s s [] [] 0 None eq_refl eq_refl ltac:(constructor) ltac:(tauto) ltac:(discriminate)) as HL.
  change (lenN (@nil byte) + lenN (@nil byte)) with 0 in HL. cbv zeta in HL.
  set (ps := split_dots s []) in *.
  assert (Hps : ps <> []) by apply split_dots_nonempty.
  assert (Hjoin : join_dots ps = s) by (subst ps; rewrite join_split; reflexivity).
  destruct (join_last ps Hps) as [pre Hpre].
  assert (Hlen : lenN s + 1 = fold_right (fun l acc => lenN l + 1 + acc) 0 ps) by (rewrite <- Hjoin; apply lenN_join; assumption).
  assert (Htl : text_labels s = if match last ps [] with [] => true | _ => false end then removelast ps else ps).
  { unfold text_labels. fold ps.
    destruct (rev ps) as [|l r] eqn:Erev.
    - exfalso. apply Hps. rewrite <- (rev_involutive ps), Erev. reflexivity.
    - assert (Hpsr : ps = rev r ++ [l]) by (rewrite <- (rev_involutive ps), Erev; reflexivity).
      assert (Hl1 : last ps [] = l) by (rewrite Hpsr; apply last_last).
      assert (Hl2 : removelast ps = rev r) by (rewrite Hpsr; apply removelast_last).
      rewrite Hl1, Hl2. destruct l; reflexivity. }
  destruct (name_loop _ s s 0 0 None tt) as [[ds u]| | | | |] eqn:EL; try contradiction; cbn [bind].
  - cbv beta iota zeta in HL. destruct HL as (Hall & Hnone & Hsome). destruct u.
    destruct ds as [d|].
    + (* at least one dot *)
      specialize (Hsome d eq_refl).
      rewrite name_tail_nonempty_nounderflow_spec, name_tail_nonempty_spec.
      assert (Hd : d <= lenN s) by lia. destruct (d <=? lenN s) eqn:Ed; [|lia].
      assert (Hlast : subN s d (lenN s - d) = last ps []).
      { replace (lenN s - d) with (lenN (last ps [])) by lia. rewrite <- Hjoin, Hpre.
        replace d with (lenN pre); [apply suffix_subN|]. rewrite <- Hjoin, Hpre, lenN_app in Hsome. lia. }
      assert (Hmany : (length ps <> 1)%nat).
      { intro H1. assert (@None N = None) by reflexivity. destruct Hnone as [_ Hn]. discriminate (Hn (conj eq_refl H1)). }
      destruct (0 <? lenN s - d) eqn:Et.
      * (* last piece non-empty *)
        rewrite Hlast.
        assert (Hlne : last ps [] <> []). { intro H0. rewrite H0, lenN_nil in Hsome. lia. }
        destruct (last ps []) as [|lb lr] eqn:Elast; [congruence|]. rewrite Htl.
        rewrite <- Elast.
        destruct (check_label_ok_or_err (last ps [])) as [Hok|[e He]]; rewrite ?Hok, ?He; cbn [bind].
        -- rewrite (getN_last s x00 Hne).
           assert (Hlb : last s x00 = last (last ps []) x00).
           { rewrite <- Hjoin at 1. rewrite Hpre. rewrite Elast. rewrite last_app' by discriminate. rewrite <- Elast. reflexivity. }
           assert (Hnd : bN (last s x00) =? 46 = false).
           { rewrite Hlb. pose proof (pieces_no_dot s [] ltac:(constructor)) as Hp. fold ps in Hp.
             assert (Forall (fun b => bN b <> 46) (last ps [])).
             { rewrite Forall_forall in Hp. apply Hp. apply last_In. assumption. }
             rewrite Elast in *. rewrite Forall_forall in H. specialize (H (last (lb :: lr) x00)).
             assert (In (last (lb :: lr) x00) (lb :: lr)) by (apply last_In; discriminate).
             specialize (H H0). lia. }
           rewrite name_full_length_spec, Hnd.
           assert (Hw : wire_len ps = lenN s + 2) by (rewrite wire_len_fold; lia).
           rewrite Hw. destruct (name_too_long (lenN s + 2)) eqn:Etl.
           ++ apply name_too_long_spec in Etl. split; [discriminate|]. intro H. exfalso.
              rewrite !Bool.andb_true_iff in H. destruct H as [_ H]. lia.
           ++ assert (lenN s + 2 <= 255).
              { destruct (N.le_gt_cases (lenN s + 2) 255); [assumption|]. apply name_too_long_spec in H. congruence. }
              split; [intros _|reflexivity].
              rewrite !Bool.andb_true_iff. split; [split|lia].
              ** destruct ps; [congruence|reflexivity].
              ** rewrite (forallb_removelast_last label_ok ps Hps). apply Bool.andb_true_iff. split.
                 --- apply Forall_check_forallb. assumption.
                 --- apply check_label_ok. assumption.
        -- split; [discriminate|]. intro H. exfalso. rewrite !Bool.andb_true_iff in H. destruct H as [[_ H] _].
           rewrite (forallb_removelast_last label_ok ps Hps) in H. apply Bool.andb_true_iff in H. destruct H as [_ H].
           apply check_label_ok in H. congruence.
      * (* name ends with a dot: last piece empty *)
        assert (Hle : last ps [] = []).
        { destruct (last ps []) eqn:E; [reflexivity|]. rewrite lenN_cons in Hsome. lia. }
        rewrite Htl, Hle.
        rewrite (getN_last s x00 Hne).
        assert (Hdot : bN (last s x00) =? 46 = true).
        { assert (Hrl : removelast ps <> []).
          { destruct ps as [|p [|q r]]; try congruence; [cbn in Hmany; congruence|discriminate]. }
          rewrite <- Hjoin. rewrite (app_removelast_last [] Hps), Hle.
          rewrite (join_ends_with_dot _ Hrl). reflexivity. }
        rewrite name_full_length_spec, Hdot.
        assert (Hw : wire_len (removelast ps) = lenN s + 1).
        { rewrite wire_len_fold. rewrite (fold_removelast ps Hps Hle) in Hlen. lia. }
        rewrite Hw. destruct (name_too_long (lenN s + 1)) eqn:Etl.
        -- apply name_too_long_spec in Etl. split; [discriminate|]. intro H. exfalso.
           rewrite !Bool.andb_true_iff in H. destruct H as [_ H]. lia.
        -- assert (lenN s + 1 <= 255).
           { destruct (N.le_gt_cases (lenN s + 1) 255); [assumption|]. apply name_too_long_spec in H. congruence. }
           split; [intros _|reflexivity].
           rewrite !Bool.andb_true_iff. split; [split|lia].
           ++ destruct ps as [|p [|q r]]; try congruence; [cbn in Hmany; congruence|reflexivity].
           ++ apply Forall_check_forallb. assumption.
    + (* no dot at all: the whole string is one label *)
      destruct Hnone as [Hn _]. destruct (Hn eq_refl) as [_ H1].
      assert (Hps1 : ps = [s]).
      { destruct ps as [|p [|q r]]; [congruence| |cbn in H1; discriminate]. cbn in Hjoin. congruence. }
      assert (Hnd : bN (last s x00) =? 46 = false).
      { pose proof (pieces_no_dot s [] ltac:(constructor)) as Hp. fold ps in Hp. rewrite Hps1 in Hp.
        apply Forall_inv in Hp. rename Hp into H2. rewrite Forall_forall in H2. specialize (H2 (last s x00)).
        assert (In (last s x00) s) by (apply last_In; assumption).
        specialize (H2 H). lia. }
      assert (Hw : wire_len [s] = lenN s + 2) by (unfold wire_len; cbn; lia).
      assert (Hsel : (if match last [s] [] with [] => true | _ => false end then removelast [s] else [s]) = [s]).
      { cbn [last removelast]. destruct s; [congruence|reflexivity]. }
      rewrite Htl, Hps1, Hsel.
      destruct (check_label_ok_or_err s) as [Hok|[e He]]; rewrite ?Hok, ?He; cbn [bind].
      * rewrite (getN_last s x00 Hne).
        rewrite name_full_length_spec, Hnd.
        rewrite Hw. destruct (name_too_long (lenN s + 2)) eqn:Etl.
        -- apply name_too_long_spec in Etl. split; [discriminate|]. intro H. exfalso.
           rewrite !Bool.andb_true_iff in H. destruct H as [_ H]. lia.
        -- assert (lenN s + 2 <= 255).
           { destruct (N.le_gt_cases (lenN s + 2) 255); [assumption|]. apply name_too_long_spec in H. congruence. }
           split; [intros _|reflexivity]. rewrite !Bool.andb_true_iff. split; [split|lia]; [reflexivity|].
           cbn [forallb]. rewrite Bool.andb_true_r. apply check_label_ok. assumption.
      * split; [discriminate|]. intro H. exfalso. rewrite !Bool.andb_true_iff in H. destruct H as [[_ H] _].
        cbn [forallb] in H. rewrite Bool.andb_true_r in H. apply check_label_ok in H. congruence.
  - (* a label closed by a dot is invalid *)
    cbv beta iota zeta in HL. destruct HL as (l & Hin & Hbad). split; [discriminate|]. intro H. exfalso.
    rewrite !Bool.andb_true_iff in H. destruct H as [[_ H] _]. rewrite Htl in H.
    assert (forallb label_ok (removelast ps) = true).
    { destruct (match last ps [] with [] => true | _ => false end); [assumption|].
      rewrite (forallb_removelast_last label_ok ps Hps) in H. apply Bool.andb_true_iff in H. tauto. }
    rewrite forallb_forall in H0. apply Hbad, check_label_ok, H0. assumption.
Qed.

(* ---- parsing keeps the spelling ---- *)
Lemma ends_with_dot_last s : s <> [] -> ends_with_dot s = (bN (last s x00) =? 46).
Proof.
  intro H. unfold ends_with_dot. destruct (exists_last H) as (l & a & ->). rewrite rev_app_distr, last_last. reflexivity.
Qed.

Lemma canon_text_last s : s <> [] -> canon_text s = if bN (last s x00) =? 46 then s else s ++ [x2e].
Proof.
  intro H. unfold canon_text. destruct (exists_last H) as (l & a & ->). rewrite rev_app_distr, last_last. reflexivity.
Qed.

Lemma valid_len s : valid_text s = true -> is_root s = false ->
  (bN (last s x00) =? 46 = true -> lenN s + 1 <= 255) /\ (bN (last s x00) =? 46 = false -> lenN s + 2 <= 255).
Proof.
  intros Hv Hr. apply check_name_valid in Hv. unfold check_name_bytes in Hv.
  destruct s as [|b0 s0] eqn:Es; [discriminate|]. rewrite <- Es in *.
  change (is_root_text s) with (is_root s) in Hv. rewrite Hr in Hv.
  destruct (name_labels _ s tt) as [[]| | | | |]; cbn [bind] in Hv; try discriminate.
  assert (Hne : s <> []) by (subst; discriminate).
  rewrite (getN_last s x00 Hne), name_full_length_spec in Hv.
  destruct (bN (last s x00) =? 46) eqn:E.
  - destruct (name_too_long (lenN s + 1)) eqn:Et; [discriminate|]. split; [intros _|discriminate].
    destruct (N.le_gt_cases (lenN s + 1) 255); [assumption|]. apply name_too_long_spec in H. congruence.
  - destruct (name_too_long (lenN s + 2)) eqn:Et; [discriminate|]. split; [discriminate|intros _].
    destruct (N.le_gt_cases (lenN s + 2) 255); [assumption|]. apply name_too_long_spec in H. congruence.
Qed.

Theorem from_str_spec nk s :
  (valid_text s = true -> name_from_str nk s = Ok (canon_text s)) /\
  (valid_text s = false -> exists e, name_from_str nk s = Err e).
Proof.
  split.
  - intro Hv. pose proof Hv as Hc. apply check_name_valid in Hc. unfold name_from_str. rewrite Hc. cbn [bind].
    assert (Hne : s <> []) by (intro; subst; discriminate).
    rewrite (getN_last s x00 Hne), (canon_text_last s Hne). rewrite inline_capacity_spec.
    destruct (is_root s) eqn:Er.
    + destruct s as [|b [|? ?]]; try discriminate. cbn in Er. cbn [last]. rewrite Er.
      destruct nk; [reflexivity|]. change (lenN [b]) with 1. reflexivity.
    + destruct (valid_len s Hv Er) as [H1 H2].
      destruct (bN (last s x00) =? 46) eqn:E.
      * specialize (H1 eq_refl). destruct nk; [reflexivity|]. destruct (255 <? lenN s) eqn:E2; [lia|reflexivity].
      * specialize (H2 eq_refl). destruct nk; [reflexivity|].
        destruct (255 <? lenN s) eqn:E2; [lia|]. destruct (255 <? lenN s + 1) eqn:E3; [lia|reflexivity].
  - intro Hv. unfold name_from_str.
    pose proof (check_name_valid s) as Hiff.
    assert (Hd : defined (check_name_bytes s)).
    { unfold check_name_bytes. destruct s as [|b0 s0] eqn:Es; [exact I|]. rewrite <- Es.
      destruct (is_root_text s); [exact I|].
      assert (Hnl : defined (name_labels (fun (_ : unit) l => check_label_bytes l) s tt)).
      { unfold name_labels.
        pose proof (name_loop_split s s [] [] 0 None eq_refl eq_refl ltac:(constructor) ltac:(tauto) ltac:(discriminate)) as HL.
        change (lenN (@nil byte) + lenN (@nil byte)) with 0 in HL.
        destruct (name_loop _ s s 0 0 None tt) as [[ds u]| | | | |]; try contradiction; cbn [bind]; [|exact I].
        cbv beta iota zeta in HL. destruct HL as (_ & _ & Hsome).
        destruct ds as [d|]; [|apply check_label_defined].
        specialize (Hsome d eq_refl). rewrite name_tail_nonempty_nounderflow_spec.
        destruct (d <=? lenN s) eqn:Ed; [|lia]. destruct (name_tail_nonempty _ _); [|exact I]. apply check_label_defined. }
      destruct (name_labels _ s tt) as [[]| | | | |]; cbn in *; try tauto.
      assert (Hne : s <> []) by (subst; discriminate).
      rewrite (getN_last s x00 Hne). destruct (name_too_long _); exact I. }
    destruct (check_name_bytes s) as [[]| | | | |]; cbn in *; try tauto; eauto.
    assert (valid_text s = true) by (apply Hiff; reflexivity). congruence.
Qed.

(* ---- every decoded name is a valid text name, and re-parses to itself ---- *)
Definition nodot (l : list byte) : Prop := Forall (fun b => bN b <> 46) l.

Lemma label_ok_nodot l : label_ok l = true -> nodot l /\ l <> [].
Proof.
  unfold label_ok. destruct l as [|f l]; [discriminate|]. intro H.
  rewrite !Bool.andb_true_iff in H. destruct H as [[[_ H] _] _]. split; [|discriminate].
  rewrite forallb_forall in H. apply Forall_forall. intros b Hb. specialize (H b Hb).
  intro E. unfold WireName.label_byte_ok in H. rewrite E in H. vm_compute in H. discriminate.
Qed.

Lemma split_nodot l : forall rest cur, nodot l -> split_dots (l ++ rest) cur = split_dots rest (rev l ++ cur).
Proof.
  induction l as [|b l IH]; intros rest cur H; [reflexivity|].
  inversion H; subst. cbn [app split_dots]. destruct (bN b =? 46) eqn:E; [lia|].
  rewrite IH by assumption. cbn [rev]. rewrite <- app_assoc. reflexivity.
Qed.

Lemma split_concat L : Forall nodot L ->
  split_dots (concat (map (fun l => l ++ [x2e]) L)) [] = L ++ [[]].
Proof.
  induction 1 as [|l L Hl HL IH]; [reflexivity|]. cbn [map concat].
  rewrite <- app_assoc, split_nodot by assumption. cbn [app split_dots].
  change (bN x2e =? 46) with true. cbn iota. rewrite app_nil_r, rev_involutive, IH. reflexivity.
Qed.

Theorem join_labels_valid L :
  Forall (fun l => label_ok l = true) L -> wire_len L <= 255 -> valid_text (join_labels L) = true.
Proof.
  intros HL Hw. destruct L as [|l0 L0] eqn:EL; [reflexivity|]. rewrite <- EL in *.
  assert (Hnd : Forall nodot L).
  { rewrite Forall_forall in *. intros l Hl. apply label_ok_nodot, HL, Hl. }
  assert (Hj : join_labels L = concat (map (fun l => l ++ [x2e]) L)) by (subst L; reflexivity).
  assert (Hl0 : l0 <> []) by (apply label_ok_nodot; subst L; inversion HL; assumption).
  unfold valid_text. rewrite Hj.
  destruct (concat (map (fun l => l ++ [x2e]) L)) as [|c0 cs] eqn:Ec.
  { subst L. cbn in Ec. destruct l0; [congruence|discriminate]. }
  rewrite <- Ec.
  assert (Hr : is_root (concat (map (fun l => l ++ [x2e]) L)) = false).
  { subst L. cbn [map concat]. destruct l0 as [|a l']; [congruence|]. destruct l'; reflexivity. }
  rewrite Hr. unfold text_labels. rewrite (split_concat L Hnd), rev_app_distr. cbn [rev app]. rewrite rev_involutive.
  rewrite !Bool.andb_true_iff. split; [split|lia].
  - subst L. reflexivity.
  - apply forallb_forall. rewrite Forall_forall in HL. assumption.
Qed.

Lemma concat_dot_last L : L <> [] -> last (concat (map (fun l => l ++ [x2e]) L)) x00 = x2e.
Proof.
  induction L as [|l L IH]; intro H; [congruence|]. destruct L as [|l' L'].
  - cbn [map concat]. rewrite app_nil_r. apply last_last.
  - specialize (IH ltac:(discriminate)).
    change (concat (map (fun l => l ++ [x2e]) (l :: l' :: L'))) with ((l ++ [x2e]) ++ concat (map (fun l => l ++ [x2e]) (l' :: L'))).
    rewrite last_app'; [exact IH|]. intro E. rewrite E in IH. cbn in IH. discriminate.
Qed.

Lemma canon_join L0 : canon_text (join_labels L0) = join_labels L0.
Proof.
  destruct L0 as [|l L] eqn:E; [reflexivity|]. rewrite <- E.
  assert (HL : L0 <> []) by (subst; discriminate).
  assert (Hj : join_labels L0 = concat (map (fun l => l ++ [x2e]) L0)) by (subst; reflexivity).
  pose proof (concat_dot_last L0 HL) as Hlast.
  assert (Hne : join_labels L0 <> []).
  { rewrite Hj. intro E0. rewrite E0 in Hlast. cbn in Hlast. discriminate. }
  rewrite (canon_text_last _ Hne), Hj, Hlast. reflexivity.
Qed.

(* after the dot loop: ds = Some d is the index after the last dot, and the tail from d is empty
   exactly when the string ends with a dot *)
Lemma check_loop_tail s d :
  s <> [] ->
  name_loop (fun (_ : unit) l => check_label_bytes l) s s 0 0 None tt = Ok (Some d, tt) ->
  d <= lenN s /\ (d = lenN s <-> bN (last s x00) =? 46 = true).
Proof.
  intros Hne EL.
  pose proof (name_loop_split s s [] [] 0 None eq_refl eq_refl ltac:(constructor) ltac:(tauto) ltac:(discriminate)) as HL.
  change (lenN (@nil byte) + lenN (@nil byte)) with 0 in HL. rewrite EL in HL. cbv beta iota zeta in HL.
  set (ps := split_dots s []) in *.
  assert (Hps : ps <> []) by apply split_dots_nonempty.
  assert (Hjoin : join_dots ps = s) by (subst ps; rewrite join_split; reflexivity).
  destruct HL as (_ & Hnone & Hsome). specialize (Hsome d eq_refl).
  split; [lia|].
  assert (Hmany : (length ps <> 1)%nat).
  { intro H1. destruct Hnone as [_ Hn]. discriminate (Hn (conj eq_refl H1)). }
  destruct (last ps []) as [|lb lr] eqn:Elast.
  - rewrite lenN_nil in Hsome. split; [intros _|intros; lia].
    assert (Hrl : removelast ps <> []).
    { destruct ps as [|p [|q r]]; try congruence; [cbn in Hmany; congruence|discriminate]. }
    rewrite <- Hjoin. rewrite (app_removelast_last [] Hps), Elast. rewrite (join_ends_with_dot _ Hrl). reflexivity.
  - rewrite lenN_cons in Hsome. split; [intros; lia|]. intro Hdot. exfalso.
    destruct (join_last ps Hps) as [pre Hpre].
    assert (Hlb : last s x00 = last (lb :: lr) x00).
    { rewrite <- Hjoin, Hpre, Elast. apply last_app'. discriminate. }
    pose proof (pieces_no_dot s [] ltac:(constructor)) as Hp. fold ps in Hp.
    assert (Forall (fun b => bN b <> 46) (last ps [])) by (rewrite Forall_forall in Hp; apply Hp, last_In; assumption).
    rewrite Elast in H. rewrite Forall_forall in H. specialize (H (last (lb :: lr) x00) ltac:(apply last_In; discriminate)).
    rewrite Hlb in Hdot. lia.
Qed.
