(* Proofs/Defined.v — the 17 typed RDATA decoders, label iteration and NameRef::eq always return a
   value or an error value: no UB, no arithmetic panic (the `rd_len - 5` of WKS and the
   `rd_len -= len + 1` of TXT cannot underflow), no debug assertion, and the model's loop fuel is
   never exhausted (i.e. the loops terminate) — for every byte string, RDLENGTH and position.
   Hoare triples over the cursor monad; [rem k c]: exactly k octets are left in the window. *)
From Coq Require Import ZArith.
From RsdnsModel Require Import Base GenConst GenCursor GenLabels GenNames GenRData GenSpec Cursor Names Labels RData.
From RsdnsModel.Proofs Require Import CursorSafe ListN LabelsTotal.
From Coq Require Import ZifyBool ZifyN ZifyNat.
Open Scope N_scope.

Section Def.
  Variable msg : list byte.

  Definition triple {X} (P : cursor -> Prop) (m : M X) (Q : X -> cursor -> Prop) : Prop :=
    forall c, cwf msg c -> P c ->
      cwf msg (fst (m c)) /\
      match snd (m c) with Ok x => Q x (fst (m c)) | Err _ => True | _ => False end.

  Definition rem (k : N) (c : cursor) : Prop := pos c + k = lim c.
  Definition top : cursor -> Prop := fun _ => True.
  Definition tdef {X} (m : M X) : Prop := triple top m (fun _ _ => True).

  Lemma t_ret {X} (P : cursor -> Prop) (x : X) (Q : X -> cursor -> Prop) :
    (forall c, P c -> Q x c) -> triple P (mret x) Q.
  Proof. intros H c Hc Hp. cbn. split; [assumption|apply H; assumption]. Qed.
  Lemma t_err {X} (P : cursor -> Prop) e (Q : X -> cursor -> Prop) : triple P (mfail (Err e)) Q.
  Proof. intros c Hc Hp. cbn. split; [assumption|exact I]. Qed.
  Lemma t_bind {X Y} (P : cursor -> Prop) (m : M X) (Q : X -> cursor -> Prop) (f : X -> M Y) (R : Y -> cursor -> Prop) :
    triple P m Q -> (forall x, triple (Q x) (f x) R) -> triple P (mbind m f) R.
  Proof.
    intros Hm Hf c Hc Hp. unfold mbind. specialize (Hm c Hc Hp). destruct (m c) as [c' r]. cbn [fst snd] in Hm.
    destruct Hm as [Hc' Hr]. destruct r; cbn [fst snd]; try tauto. apply Hf; assumption.
  Qed.
  Lemma t_conseq {X} (P P' : cursor -> Prop) (m : M X) (Q Q' : X -> cursor -> Prop) :
    triple P m Q -> (forall c, P' c -> P c) -> (forall x c, Q x c -> Q' x c) -> triple P' m Q'.
  Proof.
    intros H HP HQ c Hc Hp. specialize (H c Hc (HP c Hp)). destruct H as [H1 H2]. split; [assumption|].
    destruct (snd (m c)); try tauto. apply HQ; assumption.
  Qed.
  Lemma t_weaken {X} (P : cursor -> Prop) (m : M X) (Q : X -> cursor -> Prop) : triple P m Q -> triple P m (fun _ _ => True).
  Proof. intro H. eapply t_conseq; [exact H|auto|auto]. Qed.

  (* ---------------------------------------------------------------- primitives, positions tracked *)
  Lemma t_u8 k : triple (rem k) (m_u8 msg) (fun _ c => 1 <= k /\ rem (k - 1) c).
  Proof.
    intros c Hc Hp. unfold m_u8, lift. pose proof (c_u8_defined msg c Hc) as D.
    destruct (c_u8 msg c) as [[v c']| | | | |] eqn:E; cbn [fst snd] in *; try tauto.
    apply c_u8_ok in E. destruct E as (H1 & _ & ->). split; [apply cwf_set_pos; assumption|].
    unfold rem in *. cbn. lia.
  Qed.
  Lemma t_be size k : 0 < size -> triple (rem k) (lift (fun c => c_be msg c size)) (fun _ c => size <= k /\ rem (k - size) c).
  Proof.
    intros Hs c Hc Hp. unfold lift. pose proof (c_be_defined msg c size Hc Hs) as D.
    destruct (c_be msg c size) as [[v c']| | | | |] eqn:E; cbn [fst snd] in *; try tauto.
    apply c_be_ok in E. destruct E as (H1 & _ & _ & ->). split; [apply cwf_set_pos; assumption|].
    unfold rem in *. cbn. lia.
  Qed.
  Lemma t_slice n k : triple (rem k) (m_slice msg n) (fun _ c => n <= k /\ rem (k - n) c).
  Proof.
    intros c Hc Hp. unfold m_slice, lift. pose proof (c_slice_defined msg c n Hc) as D.
    destruct (c_slice msg c n) as [[[lo bs] c']| | | | |] eqn:E; cbn [fst snd bind] in *; try tauto.
    apply c_slice_ok in E. destruct E as (_ & H1 & _ & _ & ->). split; [apply cwf_set_pos; assumption|].
    unfold rem in *. cbn. lia.
  Qed.
  Lemma t_window n : triple top (m_window n) (fun _ c => rem n c).
  Proof.
    intros c Hc _. unfold m_window, lift_c, lift. pose proof (c_window_defined msg c n Hc) as D.
    destruct (c_window c n) as [c'| | | | |] eqn:E; cbn [fst snd bind] in *; try tauto.
    destruct (c_window_ok msg c n c' Hc E) as (H1 & H2 & H3 & _). split; [assumption|]. unfold rem. lia.
  Qed.
  Lemma t_close (P : cursor -> Prop) : triple P m_close (fun _ _ => True).
  Proof.
    intros c Hc _. unfold m_close, lift_c, lift. pose proof (c_close_window_defined c) as D.
    destruct (c_close_window c) as [c'| | | | |] eqn:E; cbn [fst snd bind] in *; try tauto.
    destruct (c_close_window_ok msg c c' Hc E) as (H1 & _). split; [assumption|exact I].
  Qed.

  (* ---------------------------------------------------------------- primitives, positions ignored *)
  Lemma tdef_lift {X} (P : cursor -> Prop) (f : cursor -> res (X * cursor)) :
    (forall c, cwf msg c -> defined (f c) /\ (forall x c', f c = Ok (x, c') -> cwf msg c')) ->
    triple P (lift f) (fun _ _ => True).
  Proof.
    intros H c Hc _. unfold lift. destruct (H c Hc) as [D K].
    destruct (f c) as [[x c']| | | | |] eqn:E; cbn [fst snd] in *; try tauto. split; [eapply K; reflexivity|exact I].
  Qed.
  Lemma d_u8 P : triple P (m_u8 msg) (fun _ _ => True).
  Proof.
    apply tdef_lift. intros c Hc. split; [apply c_u8_defined; assumption|].
    intros x c' H. apply c_u8_ok in H. destruct H as (_ & _ & ->). apply cwf_set_pos; assumption.
  Qed.
  Lemma d_be P size : 0 < size -> triple P (lift (fun c => c_be msg c size)) (fun _ _ => True).
  Proof.
    intro Hs. apply tdef_lift. intros c Hc. split; [apply c_be_defined; assumption|].
    intros x c' H. apply c_be_ok in H. destruct H as (_ & _ & _ & ->). apply cwf_set_pos; assumption.
  Qed.
  Lemma d_slice P n : triple P (m_slice msg n) (fun _ _ => True).
  Proof.
    unfold m_slice. apply tdef_lift. intros c Hc. pose proof (c_slice_defined msg c n Hc) as D.
    destruct (c_slice msg c n) as [[[lo bs] c2]| | | | |] eqn:E; cbn [bind defined] in *; try tauto;
      (split; [exact I|]); try discriminate.
    intros x c' H; inversion H; subst. apply c_slice_ok in E. destruct E as (_ & _ & _ & _ & ->). apply cwf_set_pos; assumption.
  Qed.
  Lemma d_name P : triple P (m_name msg) (fun _ _ => True).
  Proof.
    unfold m_name. apply tdef_lift. intros c Hc. split; [apply read_name_defined; assumption|].
    unfold read_name. intros x c'.
    destruct (read_name_loop _ _ _ _ _) as [[dn mp]| | | | |]; cbn; try discriminate.
    destruct (name_wire_too_long _); [discriminate|].
    intro H; inversion H; subst. apply cwf_set_pos; assumption.
  Qed.
  Lemma d_charstr P : triple P (m_charstr msg) (fun _ _ => True).
  Proof. unfold m_charstr. eapply t_bind; [apply d_u8|intros len]. apply d_slice. Qed.
  Lemma d_window P n : triple P (m_window n) (fun _ _ => True).
  Proof. apply (t_conseq top P (m_window n) (fun _ c => rem n c) (fun _ _ => True) (t_window n)); [intros c0 H0; exact I|intros x0 c0 H0; exact I]. Qed.

  (* body inside the RDLENGTH window, positions ignored *)
  Lemma d_in_window {X} rd (body : M X) : triple top body (fun _ _ => True) -> tdef (in_window rd body).
  Proof.
    intro Hb. unfold tdef, in_window.
    eapply t_bind; [apply d_window|intros ?].
    eapply t_bind; [eapply t_conseq; [exact Hb|intros; exact I|intros ? ? H; exact H]|intros y].
    eapply t_bind; [apply t_close|intros ?]. apply t_ret. auto.
  Qed.

  Ltac dtac :=
    repeat first
      [ apply t_ret; auto
      | eapply t_bind; [first [apply d_u8 | apply d_name | apply d_slice | apply d_charstr | apply d_be; reflexivity]|intros ?] ].

  (* ---------------------------------------------------------------- TXT: no underflow, terminates *)
  Lemma t_txt_loop fuel : forall rd acc, (N.to_nat rd < fuel)%nat ->
    triple (rem rd) (txt_loop msg fuel rd acc) (fun _ _ => True).
  Proof.
    induction fuel as [|f IH]; intros rd acc Hf; [lia|]. cbn [txt_loop].
    unfold txt_more. destruct (0 <? rd) eqn:E0; [|apply t_ret; auto].
    eapply t_bind; [apply t_u8|intros len].
    eapply t_bind with (Q := fun _ c => 1 <= rd /\ len <= rd - 1 /\ rem (rd - 1 - len) c).
    - unfold txt_chunk_nonempty. destruct (0 <? len) eqn:El.
      + eapply t_conseq; [apply (t_slice len (rd - 1))|intros c [_ H]; exact H|intros x c [H1 H2]; cbn; repeat split; try assumption; lia].
      + intros c Hc [H1 H2]. cbn. split; [assumption|]. assert (len = 0) by lia. subst len. repeat split; try lia.
        unfold rem in *. lia.
    - intros chunk. unfold txt_consumed.
      destruct (len + 1 <=? rd) eqn:Eu.
      + eapply t_conseq; [apply (IH (rd - (len + 1)) (acc ++ chunk)); lia| |auto].
        intros c (H1 & H2 & H3). unfold rem in *. lia.
      + intros c Hc (H1 & H2 & H3). lia.
  Qed.

  (* ---------------------------------------------------------------- all 17 decoders *)
  Theorem read_rdata_defined ty rd m : read_rdata msg ty rd = Some m -> tdef m.
  Proof.
    unfold read_rdata.
    destruct (ty =? T_A); [intro H; injection H as <-; apply d_in_window; unfold m_u32, c_u32; dtac|].
    destruct (ty =? T_AAAA); [intro H; injection H as <-; apply d_in_window; unfold m_u128, c_u128; dtac|].
    destruct (is_name_type ty); [intro H; injection H as <-; apply d_in_window; dtac|].
    destruct (ty =? T_HINFO); [intro H; injection H as <-; apply d_in_window; dtac|].
    destruct (ty =? T_WKS).
    { intro H; injection H as <-. unfold tdef, in_window.
      eapply t_bind; [apply t_window|intros ?].
      eapply t_bind with (Q := fun _ _ => True); [|intros y; eapply t_bind; [apply t_close|intros ?]; apply t_ret; auto].
      unfold m_u32, c_u32.
      eapply t_bind; [apply (t_be 4 rd); reflexivity|intros a].
      eapply t_bind with (Q := fun _ c => 5 <= rd).
      - eapply t_conseq; [apply (t_u8 (rd - 4))|intros c [_ Hc]; exact Hc|intros ? ? [H1 _]; cbn; lia].
        (* the facts "4 <= rd" and "1 <= rd - 4" together give 5 <= rd *)
      - intros p. unfold wks_bitmap_len_nounderflow. destruct (5 <=? rd) eqn:E5.
        + eapply t_bind; [apply d_slice|intros bm]. apply t_ret; auto.
        + intros c Hc H5. lia. }
    destruct (ty =? T_MINFO); [intro H; injection H as <-; apply d_in_window; dtac|].
    destruct (ty =? T_MX); [intro H; injection H as <-; apply d_in_window; unfold m_u16, c_u16; dtac|].
    destruct (ty =? T_NULL); [intro H; injection H as <-; apply d_in_window; dtac|].
    destruct (ty =? T_SOA); [intro H; injection H as <-; apply d_in_window; unfold m_u32, c_u32; dtac|].
    destruct (ty =? T_TXT); [|discriminate].
    intro H. injection H as <-. unfold tdef.
    eapply t_bind; [apply t_window|intros ?].
    eapply t_bind; [apply (t_txt_loop (S (N.to_nat rd)) rd []); lia|intros t].
    eapply t_bind; [apply t_close|intros ?]. apply t_ret; auto.
  Qed.

  (* ---------------------------------------------------------------- label iteration and NameRef::eq *)
  Lemma lmeasure_lt_fuel st : linv msg st -> (N.to_nat (lmeasure st) < name_fuel (lc st))%nat.
  Proof. unfold linv, lmeasure, name_fuel. intros (_ & _ & Hn). nia. Qed.

  Lemma labels_next_loop_defined fuel : forall st,
    linv msg st -> (N.to_nat (lmeasure st) < fuel)%nat ->
    defined (labels_next_loop msg fuel st) /\
    (forall p b st', labels_next_loop msg fuel st = Ok (Some (p, b), st') ->
       linv msg st' /\ lmeasure st' < lmeasure st /\ lim (lc st') = lim (lc st)).
  Proof.
    induction fuel as [|f IH]; intros st Hi Hf; [lia|]. cbn [labels_next_loop].
    pose proof (label_step_defined msg st Hi) as D.
    destruct (label_step msg st) as [s| | | | |] eqn:Es; cbn [bind defined] in *; try tauto.
    - destruct s as [mp|p bytes st'|st'].
      + split; [exact I|discriminate].
      + destruct (label_step_label msg _ _ _ _ Hi Es) as (Hi' & Hlt & Hl & _).
        pose proof (check_label_defined bytes) as Da.
        destruct (check_label_bytes bytes); cbn [bind defined] in *; try tauto.
        * split; [exact I|]. intros p0 b0 st0 H; inversion H; subst. split; [assumption|split; assumption].
        * split; [exact I|discriminate].
      + destruct (label_step_jump msg _ _ Hi Es) as (Hi' & Hlt & Hl & _).
        destruct (IH st' Hi') as [D1 K1]; [lia|]. split; [assumption|].
        intros p b st0 H. destruct (K1 p b st0 H) as (A & B & C). split; [assumption|split; [lia|congruence]].
    - split; [exact I|discriminate].
  Qed.

  Definition itinv (it : labels_it) : Prop := linv msg (it_st it).

  Lemma labels_next_defined it : itinv it ->
    defined (labels_next msg it) /\
    (forall p b it', labels_next msg it = Ok (ItLabel p b, it') ->
       itinv it' /\ lmeasure (it_st it') < lmeasure (it_st it) /\ lim (lc (it_st it')) = lim (lc (it_st it))).
  Proof.
    intro Hi. unfold labels_next. destruct (it_done it); [split; [exact I|discriminate]|].
    destruct (labels_next_loop_defined (name_fuel (lc (it_st it))) (it_st it) Hi (lmeasure_lt_fuel _ Hi)) as [D K].
    destruct (labels_next_loop msg _ _) as [[[[p b]|] st']| | | | |] eqn:E; cbn [defined] in *; try tauto.
    - split; [exact I|]. intros p0 b0 it' H; inversion H; subst. apply (K p0 b0 st' eq_refl).
    - split; [exact I|discriminate].
    - split; [exact I|discriminate].
  Qed.

  Lemma nameref_eq_loop_defined fuel : forall a b,
    itinv a -> itinv b -> (N.to_nat (lmeasure (it_st a)) < fuel)%nat -> defined (nameref_eq_loop msg fuel a b).
  Proof.
    induction fuel as [|f IH]; intros a b Ha Hb Hf; [lia|]. cbn [nameref_eq_loop].
    destruct (labels_next_defined a Ha) as [Da Ka].
    destruct (labels_next msg a) as [[mo a']| | | | |] eqn:Ea; cbn [bind defined] in *; try tauto.
    destruct (labels_next_defined b Hb) as [Db Kb].
    destruct (labels_next msg b) as [[oo b']| | | | |] eqn:Eb; cbn [bind defined] in *; try tauto.
    destruct mo as [|p1 b1|e1], oo as [|p2 b2|e2]; cbn [defined]; try exact I.
    destruct (p1 =? p2); [exact I|]. destruct (negb _); [exact I|].
    destruct (Ka p1 b1 a' eq_refl) as (A1 & A2 & _). destruct (Kb p2 b2 b' eq_refl) as (B1 & _).
    apply IH; [assumption|assumption|lia].
  Qed.

  Theorem nameref_eq_defined c1 c2 : cwf msg c1 -> cwf msg c2 -> defined (nameref_eq msg c1 c2).
  Proof.
    intros H1 H2. unfold nameref_eq. apply nameref_eq_loop_defined.
    - apply linv_init; assumption.
    - apply linv_init; assumption.
    - pose proof (lmeasure_fuel msg c1 H1). cbn [labels_new it_st]. lia.
  Qed.

  Lemma labels_all_defined fuel : forall it acc,
    itinv it -> (N.to_nat (lmeasure (it_st it)) < fuel)%nat -> defined (labels_all msg fuel it acc).
  Proof.
    induction fuel as [|f IH]; intros it acc Hi Hf; [lia|]. cbn [labels_all].
    destruct (labels_next_defined it Hi) as [D K].
    destruct (labels_next msg it) as [[o it']| | | | |] eqn:E; cbn [bind defined] in *; try tauto.
    destruct o as [|p b|e]; try exact I.
    destruct (K p b it' eq_refl) as (A1 & A2 & _). apply IH; [assumption|lia].
  Qed.
  Theorem labels_drain_defined c : cwf msg c -> defined (labels_drain msg c).
  Proof.
    intro Hc. unfold labels_drain. apply labels_all_defined; [apply linv_init; assumption|].
    pose proof (lmeasure_fuel msg c Hc). cbn [labels_new it_st]. lia.
  Qed.
End Def.
