(* Proofs/TimedGeneral.v — C12, C13 and C14 on the clients over time, in EVERY world: any arrivals
   in any order, any TCP peer, any lateness of timers and any CPU time (no bound needed). *)
From RsdnsModel Require Import Base GenConst GenHeader GenReader GenClient Cursor Names Labels Header Tracker RData Reader Client Timed.
From RsdnsModel.Proofs Require Import ClientProofs TimedProofs.
From Coq Require Import ZifyBool ZifyN ZifyNat.
Open Scope N_scope.

Section General.
Variable good : list byte -> option N.
Variable acc : list byte -> res (option N).
Hypothesis acc_good : forall d, acc d = Ok (good d).
Variables (start lifetime : N) (qt : option N) (jit proc : N -> N) (buf_len : N) (smol : bool).

Definition rejected (a : arrival) : Prop := good (snd a) = None.

(* ---------------------------------------------------------------- C12: the first match, nothing else *)
Lemma std_recv_first qs : forall arrs now d fl t rest,
  std_recv_loop acc start lifetime qt jit proc qs arrs now = (Ok (d, fl), t, rest) ->
  exists pre ta, arrs = pre ++ (ta, d) :: rest /\ Forall rejected pre /\ good d = Some fl.
Proof.
  induction arrs as [|[t1 d1] a IH]; intros now d fl t rest H; cbn [std_recv_loop] in H.
  - destruct (query_left_at now start qs lifetime qt); inversion H.
  - destruct (query_left_at now start qs lifetime qt); try (inversion H; fail).
    destruct (t1 <? now + a0); [|inversion H].
    rewrite acc_good in H. destruct (good d1) as [f|] eqn:Eg.
    + inversion H; subst. exists [], t1. repeat split; [constructor|assumption].
    + apply IH in H. destruct H as (pre & ta & -> & Hp & Hg). exists ((t1, d1) :: pre), ta.
      repeat split; [constructor; [exact Eg|assumption]|assumption].
Qed.
Lemma std_recv_consumed qs : forall arrs now e t rest,
  std_recv_loop acc start lifetime qt jit proc qs arrs now = (Err e, t, rest) ->
  exists pre, arrs = pre ++ rest /\ Forall rejected pre.
Proof.
  induction arrs as [|[t1 d1] a IH]; intros now e t rest H; cbn [std_recv_loop] in H.
  - destruct (query_left_at now start qs lifetime qt); inversion H; subst; exists (@nil arrival); (split; [reflexivity|apply Forall_nil]).
  - destruct (query_left_at now start qs lifetime qt); try (inversion H; subst; exists (@nil arrival); (split; [reflexivity|apply Forall_nil])).
    destruct (t1 <? now + a0); [|inversion H; subst; exists (@nil arrival); (split; [reflexivity|apply Forall_nil])].
    rewrite acc_good in H. destruct (good d1) as [f|] eqn:Eg; [inversion H|].
    apply IH in H. destruct H as (pre & -> & Hp). exists ((t1, d1) :: pre). split; [reflexivity|constructor; [exact Eg|assumption]].
Qed.

Theorem std_exchange_first : forall fuel arrs now s d fl t rest,
  std_udp_exchange acc start lifetime qt jit proc fuel arrs now = (s, Ok (d, fl), t, rest) ->
  exists pre ta, arrs = pre ++ (ta, d) :: rest /\ Forall rejected pre /\ good d = Some fl.
Proof.
  induction fuel as [|f IH]; intros arrs now s d fl t rest H; cbn [std_udp_exchange] in H; [inversion H|].
  destruct (query_left_at now start now lifetime qt); try (inversion H; fail).
  destruct (std_recv_loop acc start lifetime qt jit proc now arrs now) as [[r1 t1] rest1] eqn:Er.
  destruct r1 as [[d1 f1]|e| | | |]; try (inversion H; fail).
  - inversion H; subst. eapply std_recv_first; eassumption.
  - destruct (std_recv_consumed _ _ _ _ _ _ Er) as (pre & -> & Hp).
    destruct (is_timedout e); [|inversion H].
    destruct (std_udp_exchange acc start lifetime qt jit proc f rest1 t1) as [[[s2 r2] t2] rest2] eqn:E2.
    inversion H; subst. destruct (IH _ _ _ _ _ _ _ E2) as (pre2 & ta & -> & Hp2 & Hg).
    exists (pre ++ pre2), ta. rewrite <- app_assoc. repeat split; [apply Forall_app; split; assumption|assumption].
Qed.

Lemma async_recv_first dl : forall arrs now d fl t rest,
  async_recv_loop acc jit dl arrs now = (Ok (d, fl), t, rest) ->
  exists pre ta, arrs = pre ++ (ta, d) :: rest /\ Forall rejected pre /\ good d = Some fl.
Proof.
  induction arrs as [|[t1 d1] a IH]; intros now d fl t rest H; cbn [async_recv_loop] in H; [inversion H|].
  destruct (t1 <? dl); [|inversion H].
  rewrite acc_good in H. destruct (good d1) as [f|] eqn:Eg.
  - inversion H; subst. exists [], t1. repeat split; [constructor|assumption].
  - apply IH in H. destruct H as (pre & ta & -> & Hp & Hg). exists ((t1, d1) :: pre), ta.
    repeat split; [constructor; [exact Eg|assumption]|assumption].
Qed.
Lemma async_recv_consumed dl : forall arrs now e t rest,
  async_recv_loop acc jit dl arrs now = (Err e, t, rest) ->
  exists pre, arrs = pre ++ rest /\ Forall rejected pre.
Proof.
  induction arrs as [|[t1 d1] a IH]; intros now e t rest H; cbn [async_recv_loop] in H.
  - inversion H; subst; exists (@nil arrival); (split; [reflexivity|apply Forall_nil]).
  - destruct (t1 <? dl); [|inversion H; subst; exists (@nil arrival); (split; [reflexivity|apply Forall_nil])].
    rewrite acc_good in H. destruct (good d1) as [f|] eqn:Eg; [inversion H|].
    apply IH in H. destruct H as (pre & -> & Hp). exists ((t1, d1) :: pre). split; [reflexivity|constructor; [exact Eg|assumption]].
Qed.
Theorem async_exchange_first : forall fuel arrs now s d fl t rest,
  async_udp_exchange acc start lifetime qt jit smol fuel arrs now = (s, Ok (d, fl), t, rest) ->
  exists pre ta, arrs = pre ++ (ta, d) :: rest /\ Forall rejected pre /\ good d = Some fl.
Proof.
  induction fuel as [|f IH]; intros arrs now s d fl t rest H; cbn [async_udp_exchange] in H; [inversion H|].
  destruct qt as [q|].
  - destruct (async_recv_loop acc jit _ arrs now) as [[r1 t1] rest1] eqn:Er.
    destruct r1 as [[d1 f1]|e| | | |]; try (inversion H; fail).
    + inversion H; subst. eapply async_recv_first; eassumption.
    + destruct (async_recv_consumed _ _ _ _ _ _ Er) as (pre & -> & Hp).
      destruct (is_timedout e); [|inversion H]. destruct (_ && _); [|inversion H].
      destruct (async_udp_exchange acc start lifetime (Some q) jit smol f rest1 t1) as [[[s2 r2] t2] rest2] eqn:E2.
      inversion H; subst. destruct (IH _ _ _ _ _ _ _ E2) as (pre2 & ta & -> & Hp2 & Hg).
      exists (pre ++ pre2), ta. rewrite <- app_assoc. repeat split; [apply Forall_app; split; assumption|assumption].
  - destruct (async_recv_loop acc jit _ arrs now) as [[r1 t1] rest1] eqn:Er.
    destruct r1 as [[d1 f1]|e| | | |]; try (inversion H; fail).
    + inversion H; subst. eapply async_recv_first; eassumption.
    + destruct (is_timedout e); inversion H.
Qed.

(* ---------------------------------------------------------------- C14: framing, whatever the timing *)
Lemma std_read_ok timeout_at : forall need bs eof now got x t rest,
  std_tcp_read jit proc timeout_at need bs eof now got = (Ok x, t, rest) ->
  x = got ++ map snd (firstn need bs) /\ rest = skipn need bs /\ (need <= length bs)%nat.
Proof.
  induction need as [|k IH]; intros bs eof now got x t rest H; cbn [std_tcp_read] in H.
  - inversion H; subst. cbn. rewrite app_nil_r. repeat split; lia.
  - destruct (timeout_at now); try (inversion H; fail).
    destruct bs as [|[t1 b] bs'].
    + destruct eof as [te|]; [destruct (te <? now + a)|]; inversion H.
    + destruct (t1 <? now + a); [|inversion H].
      apply IH in H. destruct H as (-> & -> & Hl). cbn [firstn skipn map snd length]. rewrite <- app_assoc. repeat split; lia.
Qed.
Lemma async_read_ok : forall need bs eof now got x t rest,
  async_tcp_read start lifetime qt jit smol need bs eof now got = (Ok x, t, rest) ->
  x = got ++ map snd (firstn need bs) /\ rest = skipn need bs /\ (need <= length bs)%nat.
Proof.
  induction need as [|k IH]; intros bs eof now got x t rest H; cbn [async_tcp_read] in H.
  - inversion H; subst. cbn. rewrite app_nil_r. repeat split; lia.
  - destruct bs as [|[t1 b] bs'].
    + destruct eof as [te|]; [destruct (te <? _)|]; inversion H.
    + destruct (t1 <? _); [|inversion H].
      apply IH in H. destruct H as (-> & -> & Hl). cbn [firstn skipn map snd length]. rewrite <- app_assoc. repeat split; lia.
Qed.

(* what a TCP exchange returns as Ok is framed by the prefix: the peer's stream begins with two
   octets announcing n <= buffer length, and the result is exactly the n octets that follow them *)
Definition framed (stream body : list byte) : Prop :=
  exists prefix rest, stream = prefix ++ body ++ rest /\ length prefix = 2%nat /\ lenN body = be_val prefix 0 /\ lenN body <= buf_len.

Lemma firstn_skipn_split {A} (l : list A) n m : (n <= length l)%nat -> (m <= length (skipn n l))%nat ->
  l = firstn n l ++ firstn m (skipn n l) ++ skipn m (skipn n l).
Proof. intros _ _. rewrite firstn_skipn. rewrite firstn_skipn. reflexivity. Qed.

Theorem std_tcp_framed qs srv now body t :
  std_tcp_exchange start lifetime jit proc buf_len qs srv now = (Ok body, t) -> framed (map snd (tp_bytes srv)) body.
Proof.
  unfold std_tcp_exchange. intro H.
  destruct (lifetime_left_at now start qs lifetime); try (inversion H; fail).
  destruct (match tp_accept srv with Some c => if c <? a then Some (now + c) else None | None => None end) as [now1|]; [|inversion H].
  destruct (lifetime_left_at now1 start qs lifetime); try (inversion H; fail).
  destruct (std_tcp_read jit proc _ 2 (tp_bytes srv) (tp_eof srv) now1 []) as [[r2 now2] rest2] eqn:E2.
  destruct r2 as [prefix|e| | | |]; try (inversion H; fail).
  destruct (std_read_ok _ _ _ _ _ _ _ _ _ E2) as (Hp & -> & Hl2). cbn [app] in Hp.
  destruct (std_tcp_too_big (be_val prefix 0) buf_len) eqn:Eb; [inversion H|].
  destruct (std_tcp_read jit proc _ (N.to_nat (be_val prefix 0)) (skipn 2 (tp_bytes srv)) (tp_eof srv) now2 []) as [[r3 now3] rest3] eqn:E3.
  inversion H; subst r3 now3. destruct (std_read_ok _ _ _ _ _ _ _ _ _ E3) as (Hb & _ & Hl3). cbn [app] in Hb.
  exists prefix, (map snd (skipn (N.to_nat (be_val prefix 0)) (skipn 2 (tp_bytes srv)))).
  assert (Hlen : lenN body = be_val prefix 0).
  { subst body. unfold lenN. rewrite map_length, firstn_length. lia. }
  repeat split.
  - subst prefix body. rewrite <- !map_app. f_equal. apply firstn_skipn_split; assumption.
  - subst prefix. rewrite map_length, firstn_length. lia.
  - exact Hlen.
  - rewrite Hlen. unfold std_tcp_too_big in Eb. lia.
Qed.

Theorem async_tcp_framed srv now body t :
  async_tcp_exchange start lifetime qt jit buf_len smol srv now = (Ok body, t) -> framed (map snd (tp_bytes srv)) body.
Proof.
  unfold async_tcp_exchange. intro H.
  destruct (match tp_accept srv with Some c => if now + c <? _ then Some (now + c) else None | None => None end) as [now1|]; [|inversion H].
  destruct (async_tcp_read start lifetime qt jit smol 2 (tp_bytes srv) (tp_eof srv) now1 []) as [[r2 now2] rest2] eqn:E2.
  destruct r2 as [prefix|e| | | |]; try (inversion H; fail).
  destruct (async_read_ok _ _ _ _ _ _ _ _ E2) as (Hp & -> & Hl2). cbn [app] in Hp.
  destruct (async_tcp_too_big (be_val prefix 0) buf_len) eqn:Eb; [inversion H|].
  destruct (async_tcp_read start lifetime qt jit smol (N.to_nat (be_val prefix 0)) (skipn 2 (tp_bytes srv)) (tp_eof srv) now2 []) as [[r3 now3] rest3] eqn:E3.
  inversion H; subst r3 now3. destruct (async_read_ok _ _ _ _ _ _ _ _ E3) as (Hb & _ & Hl3). cbn [app] in Hb.
  exists prefix, (map snd (skipn (N.to_nat (be_val prefix 0)) (skipn 2 (tp_bytes srv)))).
  assert (Hlen : lenN body = be_val prefix 0).
  { subst body. unfold lenN. rewrite map_length, firstn_length. lia. }
  repeat split.
  - subst prefix body. rewrite <- !map_app. f_equal. apply firstn_skipn_split; assumption.
  - subst prefix. rewrite map_length, firstn_length. lia.
  - exact Hlen.
  - rewrite Hlen. unfold async_tcp_too_big in Eb. lia.
Qed.
End General.

(* ================================================================ the real filter, both families *)
Definition rejected_by (std : bool) (q : tquery) (a : arrival) : Prop := filter_of std q (snd a) = Ok None.

(* C12 over time: in every world, what a UDP exchange returns is a datagram of the queue that the
   filter accepts, with its flags, and every datagram in front of it in the queue was rejected;
   what is left in the queue is what stood behind it *)
Theorem exchange_first_match std smol q lifetime qt jit proc queue s d fl t rest :
  exchange_of std smol q lifetime qt jit proc queue = (s, Ok (d, fl), t, rest) ->
  exists pre ta, queue = pre ++ (ta, d) :: rest /\ Forall (rejected_by std q) pre /\ filter_of std q d = Ok (Some fl).
Proof.
  unfold exchange_of. intro H.
  assert (Hrej : forall a, rejected (good_of std q) a -> rejected_by std q a).
  { intros a Ha. unfold rejected in Ha. unfold rejected_by. rewrite filter_good, Ha. reflexivity. }
  destruct std.
  - destruct (std_exchange_first _ _ (filter_good true q) _ _ _ _ _ _ _ _ _ _ _ _ _ H) as (pre & ta & -> & Hp & Hg).
    exists pre, ta. repeat split; [eapply Forall_impl; [apply Hrej|exact Hp]|rewrite filter_good, Hg; reflexivity].
  - destruct (async_exchange_first _ _ (filter_good false q) _ _ _ _ _ _ _ _ _ _ _ _ _ H) as (pre & ta & -> & Hp & Hg).
    exists pre, ta. repeat split; [eapply Forall_impl; [apply Hrej|exact Hp]|rewrite filter_good, Hg; reflexivity].
Qed.

Lemma std_uf2 : std_udp_first 2 = true. Proof. reflexivity. Qed.
Lemma std_uf1 : std_udp_first 1 = false. Proof. reflexivity. Qed.
Lemma std_uf0 : std_udp_first 0 = true. Proof. reflexivity. Qed.
Lemma std_fb2 b : std_tc_fallback b (std_tcp_allowed 2) = false. Proof. destruct b; reflexivity. Qed.
Lemma std_fb0 b : std_tc_fallback b (std_tcp_allowed 0) = b. Proof. destruct b; reflexivity. Qed.
Lemma async_uf2 : async_udp_first 2 = true. Proof. reflexivity. Qed.
Lemma async_uf1 : async_udp_first 1 = false. Proof. reflexivity. Qed.
Lemma async_uf0 : async_udp_first 0 = true. Proof. reflexivity. Qed.
Lemma async_fb2 b : async_tc_fallback b (async_tcp_allowed 2) = false. Proof. destruct b; reflexivity. Qed.
Lemma async_fb0 b : async_tc_fallback b (async_tcp_allowed 0) = b. Proof. destruct b; reflexivity. Qed.

(* C13 over time: in every world — strategy 2 (NoTcp): one UDP exchange, never TCP; strategy 1 (Tcp):
   no datagram is ever sent, one TCP exchange; default: TCP follows the UDP exchange exactly when
   the accepted datagram has TC set, and then the caller gets the TCP outcome *)
Theorem strategy_over_time std smol q lifetime qt jit proc buf strategy arrs srv sends ev r t :
  client_query_timed std smol q lifetime qt jit proc buf strategy arrs srv = (sends, ev, r, t) ->
  (strategy = 2 -> ev = [EvUdpExchange]) /\
  (strategy = 1 -> ev = [EvTcpExchange] /\ sends = []) /\
  (strategy = 0 -> exists r1 t1 rest1,
     exchange_of std smol q lifetime qt jit proc (deliver buf arrs) = (sends, r1, t1, rest1) /\
     match r1 with
     | Ok (d, fl) => if flag_tc fl then ev = [EvUdpExchange; EvTcpExchange] else ev = [EvUdpExchange] /\ r = Ok d /\ t = t1
     | _ => ev = [EvUdpExchange] /\ t = t1
     end).
Proof.
  unfold client_query_timed, exchange_of. intro H. destruct std.
  - unfold std_query in H. split; [|split].
    + intros ->. rewrite std_uf2 in H.
      destruct (std_udp_exchange _ _ _ _ _ _ _ _ _) as [[[s1 r1] t1] rest1]. destruct r1 as [[d fl]|e| | | |]; try (inversion H; reflexivity).
      rewrite std_fb2 in H. inversion H; reflexivity.
    + intros ->. rewrite std_uf1 in H. destruct (std_tcp_exchange _ _ _ _ _ _ _ _) as [r2 t2]. inversion H; split; reflexivity.
    + intros ->. rewrite std_uf0 in H.
      destruct (std_udp_exchange _ _ _ _ _ _ _ _ _) as [[[s1 r1] t1] rest1] eqn:E1.
      destruct r1 as [[d fl]|e| | | |].
      * rewrite std_fb0 in H. destruct (flag_tc fl) eqn:Etc.
        -- destruct (std_tcp_exchange _ _ _ _ _ _ _ _) as [r2 t2]. inversion H; subst. exists (Ok (d, fl)), t1, rest1. split; [reflexivity|]. rewrite Etc. reflexivity.
        -- inversion H; subst. exists (Ok (d, fl)), t, rest1. split; [reflexivity|]. rewrite Etc. repeat split.
      * inversion H; subst. exists (Err e), t, rest1. repeat split.
      * inversion H; subst. exists UB, t, rest1. repeat split.
      * inversion H; subst. exists Panic, t, rest1. repeat split.
      * inversion H; subst. exists DebugAssert, t, rest1. repeat split.
      * inversion H; subst. exists OutOfFuel, t, rest1. repeat split.
  - unfold async_query in H. split; [|split].
    + intros ->. rewrite async_uf2 in H.
      destruct (async_udp_exchange _ _ _ _ _ _ _ _ _) as [[[s1 r1] t1] rest1]. destruct r1 as [[d fl]|e| | | |]; try (inversion H; reflexivity).
      rewrite async_fb2 in H. inversion H; reflexivity.
    + intros ->. rewrite async_uf1 in H. destruct (async_tcp_exchange _ _ _ _ _ _ _ _) as [r2 t2]. inversion H; split; reflexivity.
    + intros ->. rewrite async_uf0 in H.
      destruct (async_udp_exchange _ _ _ _ _ _ _ _ _) as [[[s1 r1] t1] rest1] eqn:E1.
      destruct r1 as [[d fl]|e| | | |].
      * rewrite async_fb0 in H. destruct (flag_tc fl) eqn:Etc.
        -- destruct (async_tcp_exchange _ _ _ _ _ _ _ _) as [r2 t2]. inversion H; subst. exists (Ok (d, fl)), t1, rest1. split; [reflexivity|]. rewrite Etc. reflexivity.
        -- inversion H; subst. exists (Ok (d, fl)), t, rest1. split; [reflexivity|]. rewrite Etc. repeat split.
      * inversion H; subst. exists (Err e), t, rest1. repeat split.
      * inversion H; subst. exists UB, t, rest1. repeat split.
      * inversion H; subst. exists Panic, t, rest1. repeat split.
      * inversion H; subst. exists DebugAssert, t, rest1. repeat split.
      * inversion H; subst. exists OutOfFuel, t, rest1. repeat split.
Qed.

Lemma map_timeout_ok {A} (r : res A) x : map_timeout r = Ok x -> r = Ok x.
Proof. destruct r as [a|e| | | |]; cbn; try discriminate; [trivial|destruct (is_timedout e); discriminate]. Qed.

(* C14 over time: in every world, a result that came over TCP is framed by the length prefix of the
   peer's byte stream: the stream starts with two octets announcing n, n fits the caller's buffer,
   and the result is exactly the n octets behind them — however slowly, in whatever pieces, and
   whatever follows them; a stream that ends or stalls earlier never yields Ok *)
Theorem framing_over_time std smol q lifetime qt jit proc buf strategy arrs srv sends ev body t :
  client_query_timed std smol q lifetime qt jit proc buf strategy arrs srv = (sends, ev, Ok body, t) ->
  In EvTcpExchange ev -> framed buf (map snd (tp_bytes srv)) body.
Proof.
  unfold client_query_timed. intros H Hin. destruct std.
  - unfold std_query in H. destruct (std_udp_first strategy).
    + destruct (std_udp_exchange _ _ _ _ _ _ _ _ _) as [[[s1 r1] t1] rest1].
      destruct r1 as [[d fl]|e| | | |]; try (inversion H; subst; cbn in Hin; destruct Hin as [Hin|[]]; discriminate).
      destruct (std_tc_fallback _ _).
      * destruct (std_tcp_exchange _ _ _ _ _ _ _ _) as [r2 t2] eqn:E2. inversion H; subst.
        match goal with Hm : map_timeout r2 = Ok body |- _ => apply map_timeout_ok in Hm; subst r2 end.
        eapply (std_tcp_framed (good_of true q) (filter_of true q) (filter_good true q)); exact E2.
      * inversion H; subst. cbn in Hin. destruct Hin as [Hin|[]]; discriminate.
    + destruct (std_tcp_exchange _ _ _ _ _ _ _ _) as [r2 t2] eqn:E2. inversion H; subst.
      match goal with Hm : map_timeout r2 = Ok body |- _ => apply map_timeout_ok in Hm; subst r2 end.
      eapply (std_tcp_framed (good_of true q) (filter_of true q) (filter_good true q)); exact E2.
  - unfold async_query in H. destruct (async_udp_first strategy).
    + destruct (async_udp_exchange _ _ _ _ _ _ _ _ _) as [[[s1 r1] t1] rest1].
      destruct r1 as [[d fl]|e| | | |]; try (inversion H; subst; cbn in Hin; destruct Hin as [Hin|[]]; discriminate).
      destruct (async_tc_fallback _ _).
      * destruct (async_tcp_exchange _ _ _ _ _ _ _ _) as [r2 t2] eqn:E2. inversion H; subst.
        exact (async_tcp_framed (good_of false q) (filter_of false q) (filter_good false q) _ _ _ _ proc _ _ _ _ _ _ E2).
      * inversion H; subst. cbn in Hin. destruct Hin as [Hin|[]]; discriminate.
    + destruct (async_tcp_exchange _ _ _ _ _ _ _ _) as [r2 t2] eqn:E2. inversion H; subst.
      exact (async_tcp_framed (good_of false q) (filter_of false q) (filter_good false q) _ _ _ _ proc _ _ _ _ _ _ E2).
Qed.

(* ---------------------------------------------------------------- histories, in every world *)
(* every query of every history on a shared socket, with timers up to eps late and CPU time up to eps
   per datagram: it ends by its own start + lifetime + eps, with a datagram that the filter accepts
   FOR THIS QUERY (its id, its question) — never a leftover of another query — or with Timeout; its
   transmissions start at its own start and are spaced by the query timeout *)
Theorem history_with_slack std smol lifetime qt jit proc eps :
  (forall x, jit x <= eps) -> (forall x, proc x <= eps) -> qt_pos qt -> 0 < lifetime ->
  forall qs queue,
  Forall2 (fun q o => let '(s, r, t) := o in
             tq_start q <= t /\ t <= tq_start q + lifetime + eps /\
             match r with Ok (d, fl) => filter_of std q d = Ok (Some fl) | Err e => e = Timeout | _ => False end /\
             exists s', s = tq_start q :: s' /\ gaps (tq_start q) lifetime qt eps (tq_start q) s')
          qs (udp_history std smol lifetime qt jit proc qs queue).
Proof.
  intros Hj Hp Hq Hl. induction qs as [|q more IH]; intro queue; cbn [udp_history]; [constructor|].
  pose proof (exchange_with_slack std smol q lifetime qt jit proc eps queue) as Hx. unfold exchange_of in Hx.
  destruct (if std then _ else _) as [[[s r] t] queue'] eqn:E.
  specialize (Hx s r t queue' Hj Hp Hq Hl eq_refl). destruct Hx as (B1 & B2 & B3 & B4 & _ & _).
  constructor; [|apply IH]. repeat split; try assumption.
  destruct r as [[d fl]|e| | | |]; try assumption. rewrite filter_good, B3. reflexivity.
Qed.

(* retries disabled (query_timeout = None): exactly one transmission, at the start of the call, in every
   world — whatever arrives, however late the timers *)
Theorem no_retries_when_disabled std smol q lifetime jit proc eps queue s r t rest :
  (forall x, jit x <= eps) -> (forall x, proc x <= eps) -> 0 < lifetime ->
  exchange_of std smol q lifetime None jit proc queue = (s, r, t, rest) -> s = [tq_start q].
Proof.
  intros Hj Hp Hl H.
  destruct (exchange_with_slack std smol q lifetime None jit proc eps queue s r t rest Hj Hp I Hl H) as (_ & _ & _ & [s' [-> Hg]] & _ & _).
  destruct s' as [|y s'']; [reflexivity|]. cbn [gaps] in Hg. unfold tmo in Hg. lia.
Qed.
