(* Proofs/TimedUntimed.v — when everything arrives in time, the clients over time (Timed.v) return
   exactly what the untimed model of Client.v returns on the same datagrams and the same TCP byte
   stream: the theorems about filter, strategy and framing (C12, C13, C14) are theorems about the
   timed machines too. *)
From RsdnsModel Require Import Base GenConst GenHeader GenReader GenClient Cursor Names Labels Header Tracker RData Reader Client Timed.
From RsdnsModel.Spec Require Import Retry.
From RsdnsModel.Proofs Require Import ClientProofs TimedProofs.
From Coq Require Import ZifyBool ZifyN ZifyNat.
Open Scope N_scope.

Definition early (D : N) (bs : list (N * byte)) : Prop := Forall (fun tb => fst tb < D) bs.

Section Fast.
Variables (start lifetime : N).
Local Notation D := (start + lifetime).
Let z : N -> N := fun _ => 0.

(* ---------------------------------------------------------------- blocking client: TCP reads *)
Lemma std_read_fast (timeout_at : N -> res N) lo :
  (forall n, lo <= n -> n < D -> exists tau, timeout_at n = Ok tau /\ n + tau = D) ->
  forall need bs now got te, lo <= now -> now < D -> early D bs -> te < D ->
  exists t' rest', std_tcp_read z z timeout_at need bs (Some te) now got =
    (match read_exact need [map snd bs] with Some (x, _) => Ok (got ++ x) | None => Err IO_EOF end, t', rest') /\
    t' < D /\ now <= t' /\ early D rest' /\
    (forall x r, read_exact need [map snd bs] = Some (x, r) -> r = [map snd rest']).
Proof.
  intros Hto. induction need as [|k IH]; intros bs now got te Hlo Hn He Hte.
  - exists now, bs. cbn [std_tcp_read]. replace (read_exact 0 [map snd bs]) with (Some (@nil byte, [map snd bs])) by (destruct bs; reflexivity).
    rewrite app_nil_r. repeat split; try assumption; try lia. intros x r H. inversion H; reflexivity.
  - cbn [std_tcp_read]. destruct (Hto now Hlo Hn) as [tau [A A1]]. rewrite A.
    destruct bs as [|[t b] bs'].
    + replace (te <? now + tau) with true by lia. exists (N.max now te), []. cbn [map read_exact].
      repeat split; try lia; try constructor; try (intros; discriminate).
    + inversion He as [|? ? Ht He']; subst. cbn [fst] in Ht. replace (t <? now + tau) with true by lia.
      replace (N.max now t + z (N.max now t)) with (N.max now t) by (unfold z; lia).
      destruct (IH bs' (N.max now t) (got ++ [b]) te ltac:(lia) ltac:(lia) He' Hte) as [t' [rest' [E [H1 [H2 [H3 H4]]]]]].
      exists t', rest'. rewrite E. cbn [map snd].
      change (read_exact (S k) [b :: map snd bs']) with
        (match read_exact k [map snd bs'] with Some (bs0, r) => Some (b :: bs0, r) | None => None end).
      destruct (read_exact k [map snd bs']) as [[x r]|] eqn:Er.
      * rewrite <- app_assoc. repeat split; try assumption; try lia.
        intros x0 r0 H. inversion H; subst. apply (H4 x r0). reflexivity.
      * repeat split; try assumption; try lia; try (intros; discriminate).
Qed.

Lemma prefix_timeout_exact qs n : start <= qs -> qs <= n -> n < D ->
  exists tau, tcp_prefix_timeout_at n start qs lifetime = Ok tau /\ n + tau = D.
Proof.
  intros H1 H2 H3. unfold tcp_prefix_timeout_at, std_clock_tcp_prefix, tcp_read_timeout, std_tcp_read_over,
    std_tcp_read_timeout_nounderflow, std_tcp_read_timeout.
  destruct (lifetime <=? n - start) eqn:E; [lia|]. destruct (n - start <=? lifetime) eqn:E2; [|lia].
  eexists. split; [reflexivity|lia].
Qed.
Lemma body_timeout_exact qs n : start <= qs -> qs <= n -> n < D ->
  exists tau, tcp_body_timeout_at n start qs lifetime = Ok tau /\ n + tau = D.
Proof.
  intros H1 H2 H3. unfold tcp_body_timeout_at, std_clock_tcp_body, tcp_read_timeout, std_tcp_read_over,
    std_tcp_read_timeout_nounderflow, std_tcp_read_timeout.
  destruct (lifetime <=? n - start) eqn:E; [lia|]. destruct (n - start <=? lifetime) eqn:E2; [|lia].
  eexists. split; [reflexivity|lia].
Qed.

Lemma lifetime_left_exact qs n : start <= qs -> qs <= n -> n < D ->
  lifetime_left_at n start qs lifetime = Ok (D - n).
Proof.
  intros H1 H2 H3. unfold lifetime_left_at, std_clock_lifetime, lifetime_left, std_lifetime_over, std_lifetime_left_nounderflow, std_lifetime_left.
  destruct (lifetime <=? n - start) eqn:E; [lia|]. destruct (n - start <=? lifetime) eqn:E2; [|lia]. f_equal. lia.
Qed.

(* a TCP peer that accepts, delivers and closes before start + lifetime: the blocking client returns
   exactly what the untimed framing model (C14) returns on the peer's byte stream, before the deadline *)
Theorem std_tcp_fast buf qs srv now c te : start <= qs -> qs <= now ->
  tp_accept srv = Some c -> now + c < D -> early D (tp_bytes srv) -> tp_eof srv = Some te -> te < D ->
  exists t', std_tcp_exchange start lifetime z z buf qs srv now = (tcp_exchange true [map snd (tp_bytes srv)] buf, t') /\ t' < D.
Proof.
  intros H1 H2 Ha Hc He Hf Hte. unfold std_tcp_exchange, tcp_exchange.
  rewrite (lifetime_left_exact qs now H1 H2 ltac:(lia)). rewrite Ha.
  replace (c <? D - now) with true by lia.
  rewrite (lifetime_left_exact qs (now + c) H1 ltac:(lia) Hc). rewrite Hf.
  destruct (std_read_fast (fun n => tcp_prefix_timeout_at n start qs lifetime) qs
              (fun n Hn Hd => prefix_timeout_exact qs n H1 Hn Hd) 2 (tp_bytes srv) (now + c) [] te ltac:(lia) Hc He Hte)
    as [t1 [rest1 [E1 [T1 [T1' [He1 Hr1]]]]]].
  rewrite E1. destruct (read_exact 2 [map snd (tp_bytes srv)]) as [[prefix r]|] eqn:Ep.
  - cbn [app]. destruct (std_tcp_too_big (be_val prefix 0) buf); [exists t1; split; [reflexivity|assumption]|].
    rewrite (Hr1 prefix r eq_refl).
    destruct (std_read_fast (fun n => tcp_body_timeout_at n start qs lifetime) qs
                (fun n Hn Hd => body_timeout_exact qs n H1 Hn Hd) (N.to_nat (be_val prefix 0)) rest1 t1 [] te ltac:(lia) T1 He1 Hte)
      as [t2 [rest2 [E2 [T2 _]]]].
    rewrite E2. exists t2. split; [|assumption].
    destruct (read_exact (N.to_nat (be_val prefix 0)) [map snd rest1]) as [[body r2]|]; reflexivity.
  - exists t1. split; [reflexivity|assumption].
Qed.
End Fast.

(* ---------------------------------------------------------------- async clients: TCP reads *)
Section FastAsync.
Variables (start lifetime : N) (qt : option N) (smol : bool).
Local Notation D := (start + lifetime).
Let z : N -> N := fun _ => 0.

Lemma cd_D : call_deadline start lifetime qt smol = D.
Proof. unfold call_deadline. destruct (async_durations_are_configured smol lifetime (qt0 qt)) as [E _]. rewrite E. reflexivity. Qed.

Lemma async_read_fast : forall need bs now got te, now < D -> early D bs -> te < D ->
  exists t' rest', async_tcp_read start lifetime qt z smol need bs (Some te) now got =
    (match read_exact need [map snd bs] with Some (x, _) => Ok (got ++ x) | None => Err IO_EOF end, t', rest') /\
    t' < D /\ now <= t' /\ early D rest' /\
    (forall x r, read_exact need [map snd bs] = Some (x, r) -> r = [map snd rest']).
Proof.
  induction need as [|k IH]; intros bs now got te Hn He Hte.
  - exists now, bs. cbn [async_tcp_read]. replace (read_exact 0 [map snd bs]) with (Some (@nil byte, [map snd bs])) by (destruct bs; reflexivity).
    rewrite app_nil_r. repeat split; try assumption; try lia. intros x r H. inversion H; reflexivity.
  - cbn [async_tcp_read]. rewrite cd_D.
    destruct bs as [|[t b] bs'].
    + replace (te <? D) with true by lia. exists (N.max now te), []. cbn [map read_exact].
      repeat split; try lia; try constructor; try (intros; discriminate).
    + inversion He as [|? ? Ht He']; subst. cbn [fst] in Ht. replace (t <? D) with true by lia.
      destruct (IH bs' (N.max now t) (got ++ [b]) te ltac:(lia) He' Hte) as [t' [rest' [E [H1 [H2 [H3 H4]]]]]].
      exists t', rest'. rewrite E. cbn [map snd].
      change (read_exact (S k) [b :: map snd bs']) with
        (match read_exact k [map snd bs'] with Some (bs0, r) => Some (b :: bs0, r) | None => None end).
      destruct (read_exact k [map snd bs']) as [[x r]|] eqn:Er.
      * rewrite <- app_assoc. repeat split; try assumption; try lia.
        intros x0 r0 H. inversion H; subst. apply (H4 x r0). reflexivity.
      * repeat split; try assumption; try lia; try (intros; discriminate).
Qed.

Theorem async_tcp_fast buf srv now c te :
  tp_accept srv = Some c -> now + c < D -> early D (tp_bytes srv) -> tp_eof srv = Some te -> te < D ->
  exists t', async_tcp_exchange start lifetime qt z buf smol srv now = (tcp_exchange false [map snd (tp_bytes srv)] buf, t') /\ t' < D.
Proof.
  intros Ha Hc He Hf Hte. unfold async_tcp_exchange, tcp_exchange. rewrite cd_D, Ha.
  replace (now + c <? D) with true by lia. rewrite Hf.
  destruct (async_read_fast 2 (tp_bytes srv) (now + c) [] te Hc He Hte) as [t1 [rest1 [E1 [T1 [T1' [He1 Hr1]]]]]].
  rewrite E1. destruct (read_exact 2 [map snd (tp_bytes srv)]) as [[prefix r]|] eqn:Ep.
  - cbn [app]. destruct (async_tcp_too_big (be_val prefix 0) buf); [exists t1; split; [reflexivity|assumption]|].
    rewrite (Hr1 prefix r eq_refl).
    destruct (async_read_fast (N.to_nat (be_val prefix 0)) rest1 t1 [] te T1 He1 Hte) as [t2 [rest2 [E2 [T2 _]]]].
    rewrite E2. exists t2. split; [|assumption].
    destruct (read_exact (N.to_nat (be_val prefix 0)) [map snd rest1]) as [[body r2]|]; reflexivity.
  - exists t1. split; [reflexivity|assumption].
Qed.
End FastAsync.

(* ---------------------------------------------------------------- UDP: the exchange returns what the untimed loop returns *)
Definition early_arr (D : N) (a : arrival) : bool := fst a <? D.

Lemma udp_receive_first_good std q : forall arrs,
  udp_receive std (tq_id q) (tq_name q) (tq_type q) (tq_class q) (map snd arrs) =
  Ok (match first_good (good_of std q) arrs with Some (_, d, fl) => Some (d, fl) | None => None end).
Proof.
  induction arrs as [|[t d] r IH]; [reflexivity|]. cbn [map snd udp_receive first_good].
  pose proof (filter_good std q d) as Hg. unfold filter_of in Hg. rewrite Hg. cbn [bind].
  destruct (good_of std q d); [reflexivity|exact IH].
Qed.

Lemma filter_early_nil D : forall arrs lo, D <= lo -> sorted_from lo arrs -> filter (early_arr D) arrs = [].
Proof.
  induction arrs as [|[t d] r IH]; intros lo Hlo Hs; [reflexivity|]. cbn [sorted_from] in Hs. destruct Hs as [H1 H2].
  cbn [filter]. unfold early_arr at 1. cbn [fst]. replace (t <? D) with false by lia. apply (IH t); [lia|assumption].
Qed.

Lemma fg_time good : forall arrs lo t d fl,
  sorted_from lo arrs -> first_good good arrs = Some (t, d, fl) -> lo <= t.
Proof.
  induction arrs as [|[t1 d1] r IH]; cbn [first_good sorted_from]; intros lo t d fl Hs H; [discriminate|].
  destruct Hs as [H1 H2]. destruct (good d1) as [f|].
  - inversion H; subst. exact H1.
  - specialize (IH _ _ _ _ H2 H). lia.
Qed.

Lemma first_good_early good D : forall arrs lo, sorted_from lo arrs ->
  first_good good (filter (early_arr D) arrs) =
  match first_good good arrs with Some (t, d, fl) => if t <? D then Some (t, d, fl) else None | None => None end.
Proof.
  induction arrs as [|[t d] r IH]; intros lo Hs; [reflexivity|]. cbn [sorted_from] in Hs. destruct Hs as [H1 H2].
  cbn [filter first_good]. unfold early_arr at 1. cbn [fst]. destruct (t <? D) eqn:E.
  - cbn [first_good]. destruct (good d) as [fl|]; [rewrite E; reflexivity|]. apply (IH t H2).
  - rewrite (filter_early_nil D r t ltac:(lia) H2). cbn [first_good].
    destruct (good d) as [fl|]; [rewrite E; reflexivity|].
    destruct (first_good good r) as [[[t' d'] fl']|] eqn:Eg; [|reflexivity].
    pose proof (fg_time good r t t' d' fl' H2 Eg). replace (t' <? D) with false by lia. reflexivity.
Qed.

Lemma map_snd_filter_deliver D buf : forall arrs,
  map snd (filter (early_arr D) (deliver buf arrs)) = map (recv_into buf) (map snd (filter (early_arr D) arrs)).
Proof.
  induction arrs as [|[t d] r IH]; [reflexivity|]. unfold deliver in *. cbn [map filter fst snd].
  replace (early_arr D (t, recv_into buf d)) with (t <? D) by reflexivity. replace (early_arr D (t, d)) with (t <? D) by reflexivity.
  destruct (t <? D); cbn [map snd]; [f_equal|]; exact IH.
Qed.
Lemma sorted_deliver buf : forall arrs lo, sorted_from lo arrs -> sorted_from lo (deliver buf arrs).
Proof.
  induction arrs as [|[t d] r IH]; intros lo Hs; [exact I|]. cbn [sorted_from] in Hs. destruct Hs as [H1 H2].
  unfold deliver. cbn [map fst snd sorted_from]. split; [assumption|]. apply IH. assumption.
Qed.

(* with exact timers, the result of the UDP exchange of every client is the result of the untimed
   receive loop (Client.v, C12) over the datagrams that arrive before start + lifetime *)
Theorem timed_udp_is_untimed std smol q lifetime qt buf arrs lo :
  qt_pos qt -> 0 < lifetime -> sorted_from lo arrs ->
  snd (fst (fst (exchange_of std smol q lifetime qt zero_jit zero_jit (deliver buf arrs)))) =
  udp_outcome std (tq_id q) (tq_name q) (tq_type q) (tq_class q) buf
    (map snd (filter (early_arr (tq_start q + lifetime)) arrs)).
Proof.
  intros Hq Hl Hs.
  destruct (exchange_refines_spec std smol q lifetime qt (deliver buf arrs) lo Hq Hl (sorted_deliver buf arrs lo Hs)) as [rest [E _]].
  rewrite E. unfold outcome_of. cbn [fst snd]. unfold udp_outcome.
  rewrite <- map_snd_filter_deliver. rewrite udp_receive_first_good. cbn [bind].
  rewrite (first_good_early _ _ _ lo (sorted_deliver buf arrs lo Hs)).
  unfold spec_udp. destruct (first_good (good_of std q) (deliver buf arrs)) as [[[t d] fl]|]; [|reflexivity].
  destruct (t <? tq_start q + lifetime); reflexivity.
Qed.

(* ---------------------------------------------------------------- the whole raw query *)
Lemma map_timeout_tcp std segs buf : map_timeout (tcp_exchange std segs buf) = tcp_exchange std segs buf.
Proof.
  unfold tcp_exchange. destruct (read_exact 2 segs) as [[p r]|]; [|reflexivity].
  destruct (if std then _ else _); [reflexivity|]. destruct (read_exact _ r) as [[b x]|]; reflexivity.
Qed.

Lemma last_in {A} (l : list A) : forall a d, In (last (a :: l) d) (a :: l).
Proof. induction l as [|b l IH]; intros a d; [left; reflexivity|]. change (In (last (b :: l) d) (a :: b :: l)). right. apply IH. Qed.

(* Exact timers; arrivals in delivery order; a TCP peer that accepts at once and delivers its reply and
   closes before start + lifetime.  Then each of the four clients starts exactly the exchanges and
   returns exactly the result that the untimed client model of Client.v (query_raw_impl over the
   receive loop of C12 and the framing of C14, strategy of C13) computes from the datagrams that
   arrive before start + lifetime and from the peer's byte stream — and it does so before
   start + lifetime. *)
Theorem timed_query_is_untimed std smol q lifetime qt buf strategy arrs srv lo te sends ev r t :
  qt_pos qt -> 0 < lifetime -> sorted_from lo arrs ->
  tp_accept srv = Some 0 -> early (tq_start q + lifetime) (tp_bytes srv) -> tp_eof srv = Some te -> te < tq_start q + lifetime ->
  client_query_timed std smol q lifetime qt zero_jit zero_jit buf strategy arrs srv = (sends, ev, r, t) ->
  (ev, r) = client_query std strategy (tq_id q) (tq_name q) (tq_type q) (tq_class q) buf
              (map snd (filter (early_arr (tq_start q + lifetime)) arrs)) [map snd (tp_bytes srv)] /\
  t <= tq_start q + lifetime.
Proof.
  intros Hq Hl Hs Ha He Hf Hte H. unfold client_query, query_raw_impl.
  rewrite <- (timed_udp_is_untimed std smol q lifetime qt buf arrs lo Hq Hl Hs).
  assert (Hz : forall x : N, zero_jit x <= 0) by (intro; unfold zero_jit; lia).
  unfold client_query_timed in H. destruct std.
  - unfold std_query in H. destruct (std_udp_first strategy).
    + unfold exchange_of.
      destruct (std_udp_exchange (filter_of true q) (tq_start q) lifetime qt zero_jit zero_jit (exchange_fuel lifetime) (deliver buf arrs) (tq_start q))
        as [[[s1 r1] t1] rest1] eqn:E1.
      destruct (exchange_with_slack true smol q lifetime qt zero_jit zero_jit 0 (deliver buf arrs) s1 r1 t1 rest1 Hz Hz Hq Hl E1)
        as (B1 & B2 & B3 & [s' [-> B4]] & B5 & B6).
      cbn [fst snd]. destruct r1 as [[d fl]|e| | | |]; try contradiction.
      * destruct (std_tc_fallback (flag_tc fl) (std_tcp_allowed strategy)).
        -- assert (Hlast : tq_start q <= last (tq_start q :: s') (tq_start q) /\ last (tq_start q :: s') (tq_start q) <= t1).
           { pose proof (last_in s' (tq_start q) (tq_start q)) as Hin. rewrite Forall_forall in B5. apply B5 in Hin. lia. }
           assert (Ht1 : t1 < tq_start q + lifetime).
           { destruct (exchange_refines_spec true smol q lifetime qt (deliver buf arrs) lo Hq Hl (sorted_deliver buf arrs lo Hs)) as [rest [E _]].
             unfold exchange_of in E. rewrite E1 in E. unfold outcome_of, spec_udp in E.
             destruct (first_good (good_of true q) (deliver buf arrs)) as [[[ta da] fla]|]; [|inversion E].
             destruct (ta <? tq_start q + lifetime) eqn:Eta; inversion E; subst. lia. }
           destruct (std_tcp_fast (tq_start q) lifetime buf _ srv t1 0 te (proj1 Hlast) (proj2 Hlast) Ha ltac:(lia) He Hf Hte) as [t2 [E2 T2]].
           unfold zero_jit in H. rewrite E2 in H. inversion H; subst. rewrite map_timeout_tcp. split; [reflexivity|lia].
        -- inversion H; subst. split; [reflexivity|lia].
      * subst e. inversion H; subst. split; [reflexivity|lia].
    + destruct (std_tcp_fast (tq_start q) lifetime buf (tq_start q) srv (tq_start q) 0 te (N.le_refl _) (N.le_refl _) Ha ltac:(lia) He Hf Hte) as [t2 [E2 T2]].
      unfold zero_jit in H. rewrite E2 in H. inversion H; subst. rewrite map_timeout_tcp. split; [reflexivity|lia].
  - unfold async_query in H. destruct (async_udp_first strategy).
    + unfold exchange_of.
      destruct (async_udp_exchange (filter_of false q) (tq_start q) lifetime qt zero_jit smol (exchange_fuel lifetime) (deliver buf arrs) (tq_start q))
        as [[[s1 r1] t1] rest1] eqn:E1.
      destruct (exchange_with_slack false smol q lifetime qt zero_jit zero_jit 0 (deliver buf arrs) s1 r1 t1 rest1 Hz Hz Hq Hl E1)
        as (B1 & B2 & B3 & _ & _ & _).
      cbn [fst snd]. destruct r1 as [[d fl]|e| | | |]; try contradiction.
      * destruct (async_tc_fallback (flag_tc fl) (async_tcp_allowed strategy)).
        -- assert (Ht1 : t1 < tq_start q + lifetime).
           { destruct (exchange_refines_spec false smol q lifetime qt (deliver buf arrs) lo Hq Hl (sorted_deliver buf arrs lo Hs)) as [rest [E _]].
             unfold exchange_of in E. rewrite E1 in E. unfold outcome_of, spec_udp in E.
             destruct (first_good (good_of false q) (deliver buf arrs)) as [[[ta da] fla]|]; [|inversion E].
             destruct (ta <? tq_start q + lifetime) eqn:Eta; inversion E; subst. lia. }
           destruct (async_tcp_fast (tq_start q) lifetime qt smol buf srv t1 0 te Ha ltac:(lia) He Hf Hte) as [t2 [E2 T2]].
           unfold zero_jit in H. rewrite E2 in H. inversion H; subst. split; [reflexivity|lia].
        -- inversion H; subst. split; [reflexivity|lia].
      * subst e. inversion H; subst. split; [reflexivity|lia].
    + destruct (async_tcp_fast (tq_start q) lifetime qt smol buf srv (tq_start q) 0 te Ha ltac:(lia) He Hf Hte) as [t2 [E2 T2]].
      unfold zero_jit in H. rewrite E2 in H. inversion H; subst. split; [reflexivity|lia].
Qed.
