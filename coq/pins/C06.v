From RsdnsModel Require Import Base GenHeader Cursor Names Labels Header RData Reader RecordSet.
From RsdnsModel.Spec Require Import LinearPass.
From RsdnsModel.Proofs Require Import CursorSafe LabelsSound Chase FromMsg NameRefEq ParseSpec.
From RsdnsModel.Spec Require Import RDataWire.
From RsdnsModel.Proofs Require Import RDataRT MessageRT EndToEnd.
From RsdnsModel.Properties Require Import C06.
Open Scope N_scope.
Check (C06_result_is_chain_end : forall msg ty rclass r fuel qname hs name ttl data,
  chase msg fuel ty r qname rclass hs = Ok (name, ttl, data) ->
  exists hs', chain msg ty rclass r qname hs name hs' /\ data <> [] /\
    Forall2 (data_of msg ty r) (filter (is_match msg rclass ty name) hs') data /\
    ttl = fold_left N.min (map hdr_ttl (filter (is_match msg rclass ty name) hs')) 4294967295).
Check (C06_chain_end_is_returned : forall msg ty rclass r qname hs name hs',
  chain_ok msg ty rclass r qname hs name hs' -> cmp_ok msg name hs' ->
  forall d ds, Forall2 (data_of msg ty r) (filter (is_match msg rclass ty name) hs') (d :: ds) ->
  forall fuel, (live hs < fuel)%nat ->
  chase msg fuel ty r qname rclass hs =
  Ok (name, fold_left N.min (map hdr_ttl (filter (is_match msg rclass ty name) hs')) 4294967295, d :: ds)).
Check (C06_nothing_qualifies_is_noanswer : forall msg ty rclass r qname hs name hs',
  chain_ok msg ty rclass r qname hs name hs' -> cmp_ok msg name hs' ->
  filter (is_match msg rclass ty name) hs' = [] ->
  Forall (fun h => is_match msg rclass T_CNAME name h = false) hs' ->
  forall fuel, (live hs < fuel)%nat -> chase msg fuel ty r qname rclass hs = Err NoAnswer).
Check (C06_always_terminates : forall msg ty rclass r,
  (forall rd, read_rdata msg ty rd <> None) -> cwf msg (r_cur r) ->
  forall fuel qname hs, cwf msg qname -> hs_wf msg hs -> (length hs < fuel)%nat ->
  defined (chase msg fuel ty r qname rclass hs)).
Check (C06_from_msg_is_chase : forall msg ty rs, from_msg msg ty = Ok rs ->
  exists r qname hs name c',
    Forall in_answer hs /\
    chase msg (S (length hs)) ty r qname (rs_class rs) hs = Ok (name, rs_ttl rs, rs_data rs) /\
    read_name msg Heap name = Ok (rs_name rs, c')).
Check (C06_match_is_decoded_equality : forall msg rclass want name c mk t1 t2 c1' c2',
  cwf msg c -> cwf msg name -> vis msg c = vis msg name ->
  read_name msg Heap c = Ok (t1, c1') -> read_name msg Heap name = Ok (t2, c2') ->
  is_match msg rclass want name (Some (c, mk)) = name_eq t1 t2 && ((m_rtype mk =? want) && (m_rclass mk =? rclass))).
Check (C06_from_msg_on_parsed_message : forall msg nq an ns ar qs rs e1 e2,
  ReaderRefine.parsed msg nq an ns ar qs rs e1 e2 -> lenN qs = nq -> lenN rs = an + ns + ar ->
  forall h, read_header msg (c_new msg) = (c_set_pos (c_new msg) 12, Ok h) ->
  h_qd h = nq /\ h_an h = an /\ h_ns h = ns /\ h_ar h = ar ->
  forall ty q, nq = 1 -> getN qs 0 = Some q -> flag_qr (h_flags h) = true -> flag_tc (h_flags h) = false ->
  exists r4, whole msg (r_cur r4) /\
    from_msg msg ty =
    if negb (FromMsgRefine.the_rcode an ns ar rs h =? 0) then Err (BadResponseCode (FromMsgRefine.the_rcode an ns ar rs h)) else
    let hs := FromMsgRefine.answer_headers msg nq an ns ar qs rs e2 in
    let* (name, ttl, data) := chase msg (S (length hs)) ty r4 (c_with_pos msg 12) (a_class q) hs in
    let* (t, _) := read_name msg Heap name in
    Ok (mkRRset t (a_class q) ttl data)).
Check (C06_direct_answers_end_to_end : forall msg q rs an ns ar e1 e2 h ty,
  lenN msg <= 65535 -> 12 <= lenN msg -> questions_stand msg 12 [q] e1 -> records_stand msg e1 rs e2 ->
  lenN rs = an + ns + ar -> an <= 65535 -> ns <= 65535 -> ar <= 65535 ->
  read_header msg (c_new msg) = (c_set_pos (c_new msg) 12, Ok h) ->
  h_qd h = 1 /\ h_an h = an /\ h_ns h = ns /\ h_ar h = ar ->
  flag_qr (h_flags h) = true -> flag_tc (h_flags h) = false -> Forall typed (firstn (N.to_nat an) rs) ->
  forall x xs, filter (sem_match q ty) (firstn (N.to_nat an) rs) = x :: xs -> sem_rcode rs an h = 0 ->
  from_msg msg ty =
  Ok (mkRRset (qtext q) (sq_class q) (fold_left N.min (map sr_ttl (x :: xs)) 4294967295)
              (map (fun y => sval (sr_data y)) (x :: xs)))).
Check (C06_follows_chain_end_to_end : forall msg q rs an ns ar e1 e2 h ty,
  lenN msg <= 65535 -> 12 <= lenN msg -> questions_stand msg 12 [q] e1 -> records_stand msg e1 rs e2 ->
  lenN rs = an + ns + ar -> an <= 65535 -> ns <= 65535 -> ar <= 65535 ->
  read_header msg (c_new msg) = (c_set_pos (c_new msg) 12, Ok h) ->
  h_qd h = 1 /\ h_an h = an /\ h_ns h = ns /\ h_ar h = ar ->
  flag_qr (h_flags h) = true -> flag_tc (h_flags h) = false -> Forall typed (firstn (N.to_nat an) rs) ->
  forall rends pn t os' x xs, rstands msg e1 rs rends ->
  schain q ty 12 (qtext q) (precs (N.to_nat an) e1 rs rends 0) pn t os' ->
  filter (smatch q ty t) os' = x :: xs -> sem_rcode rs an h = 0 ->
  from_msg msg ty = Ok (mkRRset t (sq_class q) (fold_left N.min (map pttl (x :: xs)) 4294967295) (map pval (x :: xs)))).
Check (C06_chain_noanswer_end_to_end : forall msg q rs an ns ar e1 e2 h ty,
  lenN msg <= 65535 -> 12 <= lenN msg -> questions_stand msg 12 [q] e1 -> records_stand msg e1 rs e2 ->
  lenN rs = an + ns + ar -> an <= 65535 -> ns <= 65535 -> ar <= 65535 ->
  read_header msg (c_new msg) = (c_set_pos (c_new msg) 12, Ok h) ->
  h_qd h = 1 /\ h_an h = an /\ h_ns h = ns /\ h_ar h = ar ->
  flag_qr (h_flags h) = true -> flag_tc (h_flags h) = false -> Forall typed (firstn (N.to_nat an) rs) ->
  forall rends pn t os', rstands msg e1 rs rends ->
  schain q ty 12 (qtext q) (precs (N.to_nat an) e1 rs rends 0) pn t os' ->
  filter (smatch q ty t) os' = [] -> Forall (fun o => smatch q T_CNAME t o = false) os' -> sem_rcode rs an h = 0 ->
  from_msg msg ty = Err NoAnswer).
Check (C06_chain_example : from_msg example_chain_msg T_A = Ok (mkRRset [x62; x2e] 1 30 [RD_A 84281096])).
Check (C06_end_to_end_example : from_msg example_msg T_A = Ok (mkRRset [x61; x2e] 1 60 [RD_A 16909060])).
Print Assumptions C06_result_is_chain_end. Print Assumptions C06_chain_end_is_returned. Print Assumptions C06_nothing_qualifies_is_noanswer. Print Assumptions C06_always_terminates. Print Assumptions C06_from_msg_is_chase. Print Assumptions C06_match_is_decoded_equality. Print Assumptions C06_from_msg_on_parsed_message. Print Assumptions C06_direct_answers_end_to_end. Print Assumptions C06_follows_chain_end_to_end. Print Assumptions C06_chain_noanswer_end_to_end. Print Assumptions C06_chain_example. Print Assumptions C06_end_to_end_example.
