From RsdnsModel Require Import Base GenReader Cursor Names Labels Header Tracker RData Reader Script Iter.
From RsdnsModel.Spec Require Import WireName LinearPass.
From RsdnsModel.Proofs Require Import CursorSafe LabelsSound Views RandAccess Flavours IterAgree NameRefEq ReaderRefine QuestionsIter MessageRT EndToEnd FieldLeaves.
From RsdnsModel.Properties Require Import C08.
Open Scope N_scope.
Check (C08_name_types_agree : forall msg c, read_name msg Heap c = read_name msg Inline c).
Check (C08_read_implies_skip : forall msg nk c t c',
  cwf msg c -> read_name msg nk c = Ok (t, c') -> skip_name msg c = Ok c').
Check (C08_random_access_view : forall msgs w i msg r mk ty,
  reachable msgs w -> getN (w_msgs w) i = Some msg -> getN (w_readers w) i = Some (Some r) ->
  rd_data_at msg ty mk r = rdata_pure msg ty mk /\ rd_bytes_at msg mk r = raw_pure msg mk).
Check (C08_header_flavours_agree : forall msg nk r r' n mk,
  cwf msg (r_cur r) -> rd_header_n msg nk r = (r', Ok (OHeaderN n mk)) ->
  rd_marker msg r = (r', Ok (OMarker mk)) /\
  exists nref, rd_header_ref msg r = (r', Ok (OHeaderRef nref mk)) /\ pos nref = m_off mk /\
    exists c', read_name msg nk nref = Ok (n, c')).
Check (C08_iterator_item_is_reader_item : forall msg f r it it' x,
  same_state r it -> cwf msg (ri_cur it) ->
  records_read_impl msg (S f) it = (it', Ok (RItem x)) ->
  (forall c1 ty cl ttl rdlen, (do* _ <- lift_c (skip_name msg); do* ty <- lift (c_u16 msg); do* cl <- lift (c_u16 msg);
      do* ttl <- lift (c_u32 msg); do* rdlen <- lift (c_u16 msg); mret (ty, cl, ttl, rdlen)) (ri_cur it) = (c1, Ok (ty, cl, ttl, rdlen)) ->
      iter_skip_unknown (class_defined cl) (type_defined ty) = false) ->
  exists r1 mk r2,
    rd_header_n msg Inline r = (r1, Ok (OHeaderN (rr_name x) mk)) /\
    m_rtype mk = rr_type x /\ m_rclass mk = rr_class x /\ m_ttl mk = rr_ttl x /\ m_section mk = rr_section x /\
    rd_data msg (rr_type x) mk r1 = (r2, Ok (ORData (rr_data x))) /\
    r_cur r2 = ri_cur it' /\ r_tr r2 = ri_tr it').
Check (C08_iterator_skip_is_reader_skip : forall msg f r it c1 ty cl ttl rdlen,
  same_state r it ->
  (do* _ <- lift_c (skip_name msg); do* ty <- lift (c_u16 msg); do* cl <- lift (c_u16 msg);
   do* ttl <- lift (c_u32 msg); do* rdlen <- lift (c_u16 msg); mret (ty, cl, ttl, rdlen)) (ri_cur it) = (c1, Ok (ty, cl, ttl, rdlen)) ->
  iter_skip_unknown (class_defined cl) (type_defined ty) = true ->
  forall s tr1 c2 tr2, next_section (ri_tr it) (pos (ri_cur it)) = (tr1, Some s) ->
  c_skip c1 rdlen = Ok c2 -> section_read tr1 s (pos c2) = Ok tr2 ->
  records_read_impl msg (S f) it = records_read_impl msg f (mkRecIt c2 tr2 (ri_err it)) /\
  exists r1 mk r2, rd_marker msg r = (r1, Ok (OMarker mk)) /\ m_rtype mk = ty /\ m_rclass mk = cl /\
    rd_skip_data mk r1 = (r2, Ok OUnit) /\ r_cur r2 = c2 /\ r_tr r2 = tr2 /\ r_done r2 = false).
Check (C08_nameref_eq_is_decoded_eq : forall msg nk c1 c2 t1 t2 c1' c2',
  cwf msg c1 -> cwf msg c2 -> vis msg c1 = vis msg c2 ->
  read_name msg nk c1 = Ok (t1, c1') -> read_name msg nk c2 = Ok (t2, c2') ->
  nameref_eq msg c1 c2 = Ok (name_eq t1 t2)).
Check (C08_label_iteration_is_expansion : forall msg c ls,
  cwf msg c -> expands (vis msg c) None 0 (pos c) ls ->
  Forall (fun l => label_ok (snd l) = true) ls -> labels_drain msg c = Ok (ls, None)).
Check (C08_questions_iterator : forall msg nq an ns ar qs rs e1 e2 h,
  parsed msg nq an ns ar qs rs e1 e2 -> lenN qs = nq -> h_qd h = nq ->
  Forall (fun it => a_fits255 it = true) qs ->
  iter_questions msg h = (map (qobs msg) qs, None)).
Check (C08_iterator_new : forall msg nq an ns ar qs rs e1 e2 h c1,
  parsed msg nq an ns ar qs rs e1 e2 -> lenN qs = nq ->
  read_header msg (c_new msg) = (c1, Ok h) -> h_qd h = nq -> iter_new msg = Ok (h, e1)).
Check (C08_records_iterator : forall msg nq an ns ar qs rs e1 e2, parsed msg nq an ns ar qs rs e1 e2 ->
  forall h l, lenN rs = an + ns + ar ->
  h_qd h <= 65535 -> h_an h = an -> h_ns h = ns -> h_ar h = ar -> lenN qs = nq ->
  iter_items msg nq an ns ar 0 rs = Some l -> iter_records msg h e1 = Ok (l, None)).
Check (C08_records_iterator_general : forall msg nq an ns ar qs rs e1 e2, parsed msg nq an ns ar qs rs e1 e2 ->
  forall h, lenN rs = an + ns + ar ->
  h_qd h <= 65535 -> h_an h = an -> h_ns h = ns -> h_ar h = ar -> lenN qs = nq ->
  exists stop, iter_records msg h e1 = Ok (fst (iter_walk msg nq an ns ar 0 rs), stop) /\
               (snd (iter_walk msg nq an ns ar 0 rs) = true <-> stop = None)).
Check (C08_iterator_end_to_end : forall msg qs rs nq an ns ar e1 e2 h,
  lenN msg <= 65535 -> 12 <= lenN msg -> questions_stand msg 12 qs e1 -> records_stand msg e1 rs e2 ->
  lenN qs = nq -> lenN rs = an + ns + ar -> nq <= 65535 -> an <= 65535 -> ns <= 65535 -> ar <= 65535 ->
  h_qd h = nq /\ h_an h = an /\ h_ns h = ns /\ h_ar h = ar ->
  Forall (fun x => iter_wants x = true -> typed x) rs ->
  iter_records msg h e1 = Ok (sem_iter nq an ns ar 0 rs, None)).
Check (C08_iterator_example : iter_records example_chain_msg (mkHeader 4660 33152 1 2 0 0) 19 =
  Ok ([mkRR 0 [x61; x2e] 1 5 60 (RD_Name 5 [x62; x2e]); mkRR 0 [x62; x2e] 1 1 30 (RD_A 84281096)], None)).
Check (C08_fields_are_the_words_read : forall w,
  (marker_field_type w = w /\ marker_field_class w = w /\ marker_field_ttl w = w /\ marker_field_rdlen w = w) /\
  (iter_field_type w = w /\ iter_field_class w = w /\ iter_field_ttl w = w /\ iter_field_rdlen w = w)).
Print Assumptions C08_name_types_agree. Print Assumptions C08_read_implies_skip. Print Assumptions C08_random_access_view. Print Assumptions C08_header_flavours_agree. Print Assumptions C08_iterator_item_is_reader_item. Print Assumptions C08_iterator_skip_is_reader_skip. Print Assumptions C08_nameref_eq_is_decoded_eq. Print Assumptions C08_label_iteration_is_expansion. Print Assumptions C08_questions_iterator. Print Assumptions C08_iterator_new. Print Assumptions C08_records_iterator. Print Assumptions C08_records_iterator_general. Print Assumptions C08_iterator_end_to_end. Print Assumptions C08_iterator_example. Print Assumptions C08_fields_are_the_words_read.
