From RsdnsModel Require Import Base Cursor Names Labels Header Tracker RData Reader Script.
From RsdnsModel.Proofs Require Import CursorSafe LabelsSound Views RandAccess.
From RsdnsModel.Properties Require Import C08.
Open Scope N_scope.
Check (C08_name_types_agree : forall msg c, read_name msg Heap c = read_name msg Inline c).
Check (C08_read_implies_skip : forall msg nk c t c',
  cwf msg c -> read_name msg nk c = Ok (t, c') -> skip_name msg c = Ok c').
Check (C08_random_access_view : forall msgs w i msg r mk ty,
  reachable msgs w -> getN (w_msgs w) i = Some msg -> getN (w_readers w) i = Some (Some r) ->
  rd_data_at msg ty mk r = rdata_pure msg ty mk /\ rd_bytes_at msg mk r = raw_pure msg mk).
Print Assumptions C08_name_types_agree. Print Assumptions C08_read_implies_skip. Print Assumptions C08_random_access_view.
