From RsdnsModel Require Import Base Cursor Names Labels.
From RsdnsModel.Spec Require Import WireName NameText.
From RsdnsModel.Proofs Require Import CursorSafe LabelsSound NameText.
From RsdnsModel.Properties Require Import C05.
Open Scope N_scope.
Check (C05_parse_iff_valid : forall s, check_name_bytes s = Ok tt <-> valid_text s = true).
Check (C05_from_str : forall nk s,
  (valid_text s = true -> name_from_str nk s = Ok (canon_text s)) /\
  (valid_text s = false -> exists e, name_from_str nk s = Err e)).
Check (C05_decoded_valid : forall msg nk nk' c t c',
  cwf msg c -> read_name msg nk c = Ok (t, c') ->
  valid_text t = true /\ name_from_str nk' t = Ok t).
Print Assumptions C05_parse_iff_valid. Print Assumptions C05_from_str. Print Assumptions C05_decoded_valid.
