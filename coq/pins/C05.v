From RsdnsModel Require Import Base Cursor Names Labels Writer.
From RsdnsModel.Spec Require Import WireName NameText.
From RsdnsModel.Proofs Require Import CursorSafe LabelsSound NameText WriterSafe WriterLayout RoundTrip.
From RsdnsModel.Properties Require Import C05.
Open Scope N_scope.
Check (C05_parse_iff_valid : forall s, check_name_bytes s = Ok tt <-> valid_text s = true).
Check (C05_from_str : forall nk s,
  (valid_text s = true -> name_from_str nk s = Ok (canon_text s)) /\
  (valid_text s = false -> exists e, name_from_str nk s = Err e)).
Check (C05_decoded_valid : forall msg nk nk' c t c',
  cwf msg c -> read_name msg nk c = Ok (t, c') ->
  valid_text t = true /\ name_from_str nk' t = Ok t).
Check (C05_encoder_exact : forall w s w' n, wpos w <= wcap w ->
  write_name w s = Ok (w', n) ->
  valid_text s = true /\ written w w' (qname_wire s) /\ n = lenN (qname_wire s) /\ n <= 255).
Check (C05_decode_plain : forall msg nk pre ls post c,
  msg = pre ++ wire_encode ls ++ post -> cwf msg c -> pos c = lenN pre -> lenN pre + wire_len ls <= lim c ->
  Forall (fun l => label_ok l = true) ls -> wire_len ls <= 255 ->
  read_name msg nk c = Ok (join_labels ls, c_set_pos c (lenN pre + wire_len ls))).
Check (C05_encode_then_decode : forall w s w' n nk,
  wpos w <= wcap w -> write_name w s = Ok (w', n) ->
  let c := mkCursor (wpos w') (wpos w) None in
  read_name (wbuf w') nk c = Ok (canon_text s, c_set_pos c (wpos w'))).
Print Assumptions C05_parse_iff_valid. Print Assumptions C05_from_str. Print Assumptions C05_decoded_valid. Print Assumptions C05_encoder_exact. Print Assumptions C05_decode_plain. Print Assumptions C05_encode_then_decode.
