From RsdnsModel Require Import Base Client Timed.
From RsdnsModel.Spec Require Import Retry.
From RsdnsModel.Proofs Require Import ClientProofs TimedProofs TimedUntimed TimedSame TimedGeneral.
From RsdnsModel.Properties Require Import C15.
Open Scope N_scope.
Check (C15_armed_within_lifetime : forall elapsed lifetime qt attempt tau,
  (lifetime_left elapsed lifetime = Ok tau -> 0 < tau /\ elapsed + tau <= lifetime) /\
  (query_left elapsed lifetime qt attempt = Ok tau ->
     0 < tau /\ elapsed + tau <= lifetime /\ attempt + tau <= match qt with Some t => t | None => lifetime end) /\
  (tcp_read_timeout elapsed lifetime = Ok tau -> 0 < tau /\ elapsed + tau <= lifetime)).
Check (C15_deadline : forall elapsed lifetime qt attempt, lifetime <= elapsed ->
  lifetime_left elapsed lifetime = Err Timeout /\ query_left elapsed lifetime qt attempt = Err Timeout /\
  tcp_read_timeout elapsed lifetime = Err Timeout).
Check (C15_attempt_over_retries : forall elapsed lifetime qt attempt,
  elapsed < lifetime -> match qt with Some t => t | None => lifetime end <= attempt ->
  query_left elapsed lifetime qt attempt = Err IO_TIMEDOUT).
Check (C15_armed_before_call_deadline : forall now start qs lifetime qt tau,
  start <= qs -> qs <= now ->
  (lifetime_left_at now start qs lifetime = Ok tau -> 0 < tau /\ now + tau <= start + lifetime) /\
  (query_left_at now start qs lifetime qt = Ok tau ->
     0 < tau /\ now + tau <= start + lifetime /\ now + tau <= qs + match qt with Some t => t | None => lifetime end) /\
  (tcp_prefix_timeout_at now start qs lifetime = Ok tau -> 0 < tau /\ now + tau <= start + lifetime) /\
  (tcp_body_timeout_at now start qs lifetime = Ok tau -> 0 < tau /\ now + tau <= start + lifetime)).
Check (C15_async_durations_are_configured : forall smol cfg_lifetime cfg_qt,
  async_call_duration smol cfg_lifetime cfg_qt = cfg_lifetime /\ async_attempt_duration smol cfg_lifetime cfg_qt = cfg_qt).
Check (C15_exchange_refines_spec : forall std smol q lifetime qt queue lo,
  qt_pos qt -> 0 < lifetime -> sorted_from lo queue ->
  exists rest, exchange_of std smol q lifetime qt zero_jit zero_jit queue =
    (outcome_of (spec_udp (good_of std q) (exchange_fuel lifetime) (tq_start q) lifetime qt queue), rest) /\
    exists pre, queue = pre ++ rest).
Check (C15_schedule_nth : forall q bound fuel s k x,
  nth_error (schedule fuel s q bound) k = Some x -> x = s + N.of_nat k * q /\ (k = 0%nat \/ x < bound)).
Check (C15_schedule_complete : forall q bound, 0 < q -> forall fuel s k,
  (N.to_nat (bound - s) < fuel)%nat -> s + N.of_nat k * q < bound ->
  nth_error (schedule fuel s q bound) k = Some (s + N.of_nat k * q)).
Check (C15_only_answers_matter : forall good fuel start lifetime qt arrs,
  spec_udp good fuel start lifetime qt (filter (answers good) arrs) = spec_udp good fuel start lifetime qt arrs).
Check (C15_std_is_async : forall good acc, (forall d, acc d = Ok (good d)) ->
  forall start lifetime qt smol fuel arrs now,
  qt_pos qt -> start <= now -> now < start + lifetime -> (N.to_nat (start + lifetime - now) < fuel)%nat ->
  std_udp_exchange acc start lifetime qt (fun _ => 0) (fun _ => 0) fuel arrs now =
  async_udp_exchange acc start lifetime qt (fun _ => 0) smol fuel arrs now).
Check (C15_retries_with_slack : forall std smol q lifetime qt jit proc eps queue s r t rest,
  (forall x, jit x <= eps) -> (forall x, proc x <= eps) -> qt_pos qt -> 0 < lifetime ->
  exchange_of std smol q lifetime qt jit proc queue = (s, r, t, rest) ->
  tq_start q <= t /\ t <= tq_start q + lifetime + eps /\
  match r with Ok (d, fl) => good_of std q d = Some fl | Err e => e = Timeout | _ => False end /\
  (exists s', s = tq_start q :: s' /\ gaps (tq_start q) lifetime qt eps (tq_start q) s') /\
  Forall (fun x => tq_start q <= x /\ x <= t) s /\
  (r = Err Timeout -> tq_start q + lifetime <= last s (tq_start q) + tmo lifetime qt + eps)).
Check (C15_call_ends_by_deadline : forall std smol q lifetime qt jit proc eps buf_len strategy arrs srv sends ev r t,
  (forall x, jit x <= eps) -> (forall x, proc x <= eps) -> qt_pos qt -> 0 < lifetime ->
  client_query_timed std smol q lifetime qt jit proc buf_len strategy arrs srv = (sends, ev, r, t) ->
  tq_start q <= t /\ t <= tq_start q + lifetime + eps /\ match r with Ok _ | Err _ => True | _ => False end).
Check (C15_example : (forall std, fst (exchange_of std false ex_q 1050 (Some 300) zero_jit zero_jit ex_junk) = ([1000; 1300; 1600; 1900], Err Timeout, 2050)) /\
  (forall std, fst (exchange_of std false ex_q 1050 (Some 300) zero_jit zero_jit (ex_junk ++ [(1650, ex_resp x12 x34 "A")]))
     = ([1000; 1300; 1600], Ok (ex_resp x12 x34 "A", 33152), 1650)) /\
  (forall std, fst (exchange_of std false ex_q 1050 None zero_jit zero_jit ex_junk) = ([1000], Err Timeout, 2050)) /\
  sorted_from 0 (ex_junk ++ [(1650, ex_resp x12 x34 "A")]) /\ qt_pos (Some 300)).
Check (C15_example_cpu_time : fst (exchange_of true false ex_q 1050 (Some 300) zero_jit (fun _ => 5)
         [(1010, [x00; x01; x02]%byte); (1299, ex_resp x12 x35 "a")]) = ([1000; 1304; 1604; 1904], Err Timeout, 2050)).
Check (C15_in_time_is_untimed : forall std smol q lifetime qt buf strategy arrs srv lo te sends ev r t,
  qt_pos qt -> 0 < lifetime -> sorted_from lo arrs ->
  tp_accept srv = Some 0 -> early (tq_start q + lifetime) (tp_bytes srv) -> tp_eof srv = Some te -> te < tq_start q + lifetime ->
  client_query_timed std smol q lifetime qt zero_jit zero_jit buf strategy arrs srv = (sends, ev, r, t) ->
  (ev, r) = client_query std strategy (tq_id q) (tq_name q) (tq_type q) (tq_class q) buf
              (map snd (filter (early_arr (tq_start q + lifetime)) arrs)) [map snd (tp_bytes srv)] /\
  t <= tq_start q + lifetime).
Check (C15_in_time_example : forall std, client_query_timed std false ex_q 1050 (Some 300) zero_jit zero_jit 512 0
    [(1310, [x12; x34; x83; x80; x00; x01; x00; x00; x00; x00; x00; x00; x01; "a"; x00; x00; x01; x00; x01]%byte)]
    {| tp_accept := Some 0; tp_bytes := [(1320, x00); (1320, x03); (1320, xaa); (1400, xbb); (1400, xcc)]; tp_eof := Some 1400 |}
  = ([1000; 1300], [EvUdpExchange; EvTcpExchange], Ok [xaa; xbb; xcc], 1400)).
Check (C15_all_clients_one_machine : forall smol smol' q lifetime qt buf strategy arrs srv,
  qt_pos qt -> 0 < lifetime ->
  client_query_timed true smol q lifetime qt zero_jit zero_jit buf strategy arrs srv =
  client_query_timed false smol' q lifetime qt zero_jit zero_jit buf strategy arrs srv).
Check (C15_no_retries_when_disabled : forall std smol q lifetime jit proc eps queue s r t rest,
  (forall x, jit x <= eps) -> (forall x, proc x <= eps) -> 0 < lifetime ->
  exchange_of std smol q lifetime None jit proc queue = (s, r, t, rest) -> s = [tq_start q]).
Print Assumptions C15_armed_within_lifetime. Print Assumptions C15_deadline. Print Assumptions C15_attempt_over_retries. Print Assumptions C15_armed_before_call_deadline. Print Assumptions C15_async_durations_are_configured. Print Assumptions C15_exchange_refines_spec. Print Assumptions C15_schedule_nth. Print Assumptions C15_schedule_complete. Print Assumptions C15_only_answers_matter. Print Assumptions C15_std_is_async. Print Assumptions C15_retries_with_slack. Print Assumptions C15_call_ends_by_deadline. Print Assumptions C15_example. Print Assumptions C15_example_cpu_time. Print Assumptions C15_in_time_is_untimed. Print Assumptions C15_in_time_example. Print Assumptions C15_all_clients_one_machine. Print Assumptions C15_no_retries_when_disabled.
