From RsdnsModel Require Import Base Client.
From RsdnsModel.Proofs Require Import ClientProofs.
From RsdnsModel.Properties Require Import C15.
Open Scope N_scope.
Check (C15_armed_within_lifetime : forall elapsed lifetime qt attempt tau,
  (lifetime_left elapsed lifetime = Ok tau -> 0 < tau /\ elapsed + tau <= lifetime) /\
  (query_left elapsed lifetime qt attempt = Ok tau ->
     0 < tau /\ elapsed + tau <= lifetime /\ attempt + tau <= match qt with Some t => t | None => lifetime end) /\
  (tcp_read_timeout elapsed lifetime = Ok tau -> 0 < tau /\ elapsed + tau <= lifetime)).
Check (C15_deadline : forall elapsed lifetime qt attempt, lifetime <= elapsed ->
  lifetime_left elapsed lifetime = Err Timeout /\ query_left elapsed lifetime qt attempt = Err Timeout /\
  tcp_read_timeout elapsed lifetime = Err Timeout).
Check (C15_attempt_over_retries : forall elapsed lifetime qt attempt,
  elapsed < lifetime -> match qt with Some t => t | None => lifetime end <= attempt ->
  query_left elapsed lifetime qt attempt = Err IO_TIMEDOUT).
Check (C15_armed_before_call_deadline : forall now start qs lifetime qt tau,
  start <= qs -> qs <= now ->
  (lifetime_left_at now start qs lifetime = Ok tau -> 0 < tau /\ now + tau <= start + lifetime) /\
  (query_left_at now start qs lifetime qt = Ok tau ->
     0 < tau /\ now + tau <= start + lifetime /\ now + tau <= qs + match qt with Some t => t | None => lifetime end) /\
  (tcp_prefix_timeout_at now start qs lifetime = Ok tau -> 0 < tau /\ now + tau <= start + lifetime) /\
  (tcp_body_timeout_at now start qs lifetime = Ok tau -> 0 < tau /\ now + tau <= start + lifetime)).
Check (C15_async_durations_are_configured : forall smol cfg_lifetime cfg_qt,
  async_call_duration smol cfg_lifetime cfg_qt = cfg_lifetime /\ async_attempt_duration smol cfg_lifetime cfg_qt = cfg_qt).
Print Assumptions C15_armed_within_lifetime. Print Assumptions C15_deadline. Print Assumptions C15_attempt_over_retries. Print Assumptions C15_armed_before_call_deadline. Print Assumptions C15_async_durations_are_configured.
