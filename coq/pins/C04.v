From RsdnsModel Require Import Base Cursor Names Labels RData Header Tracker Reader.
From RsdnsModel.Proofs Require Import CursorSafe ListN Window.
From RsdnsModel.Properties Require Import C04.
Open Scope N_scope.
Check (C04_exact : forall msg ty rd m c c' d,
  read_rdata msg ty rd = Some m -> cwf msg c -> m c = (c', Ok d) ->
  orig c = None /\ pos c' = pos c + rd /\ lim c' = lim c /\ orig c' = None /\ pos c + rd <= lim c).
Check (C04_noninterference : forall L m1 m2, agree L m1 m2 -> forall ty rd c, pos c + rd <= L ->
  match read_rdata m1 ty rd, read_rdata m2 ty rd with
  | Some f1, Some f2 => f1 c = f2 c
  | None, None => True
  | _, _ => False
  end).
Check (C04_raw : forall msg c n off bs c',
  c_slice msg c n = Ok (off, bs, c') ->
  off = pos c /\ bs = subN msg (pos c) n /\ lenN bs = n /\ pos c' = pos c + n /\ pos c + n <= lim c).
Print Assumptions C04_exact. Print Assumptions C04_noninterference. Print Assumptions C04_raw.
