From RsdnsModel Require Import Base GenTypes RecordSet Client Timed.
From RsdnsModel.Spec Require Import Retry.
From RsdnsModel.Proofs Require Import ClientProofs TimedProofs TimedGeneral TimedTyped.
From RsdnsModel.Properties Require Import C16.
Open Scope N_scope.
Check (C16_leftovers_ignored : forall std id qname qtype qclass pre post junk,
  Forall (fun x => accept_datagram std id qname qtype qclass x = Ok None) junk ->
  udp_receive std id qname qtype qclass (pre ++ junk ++ post) = udp_receive std id qname qtype qclass (pre ++ post)).
Check (C16_leftover_accepted_only_if_matching : forall std id qname qtype qclass pre d fl post,
  udp_receive std id qname qtype qclass (pre ++ d :: post) = Ok (Some (d, fl)) ->
  Forall (fun x => accept_datagram std id qname qtype qclass x = Ok None) pre ->
  accept_datagram std id qname qtype qclass d = Ok (Some fl)).
Check (C16_typed_query_ignores_history : forall std old d bs ty,
  lenN old = bs ->
  typed_parse_input std old d bs = recv_into bs d /\
  from_msg (typed_parse_input std old d bs) ty = from_msg (recv_into bs d) ty).
Check (C16_buffer_history_safe : forall std bs, 0 < bs -> forall h st, tq_inv bs st ->
  Forall (fun se => match snd se with TqDone r => r <= bs | _ => True end) h ->
  Forall (fun o => o = TqRan bs) (tq_run std bs st h)).
Check (C16_buffer_history_example : tq_inv 65535 (65535, 0) /\
  tq_run false 65535 (65535, 0) [(0, TqDone 120); (7, TqDropped); (0, TqDone 300); (3, TqFailed); (0, TqDropped); (1, TqDone 65535)] =
  [TqRan 65535; TqRan 65535; TqRan 65535; TqRan 65535; TqRan 65535; TqRan 65535]).
Check (C16_history_refines_spec : forall std smol lifetime qt, qt_pos qt -> 0 < lifetime ->
  forall qs queue lo, sorted_from lo queue ->
  Forall2 (fun q o => exists queue_k pre, queue = pre ++ queue_k /\
             o = outcome_of (spec_udp (good_of std q) (exchange_fuel lifetime) (tq_start q) lifetime qt
                               (filter (answers (good_of std q)) queue_k)))
          qs (udp_history std smol lifetime qt zero_jit zero_jit qs queue)).
Check (C16_history_example : (forall std, udp_history std false 500 (Some 300) zero_jit zero_jit ex_qs ex_queue =
     [ ([1000; 1300], Err Timeout, 1500);
       ([2000], Ok (ex_resp x12 x35 "b", 33152), 2100);
       ([3000; 3300], Err Timeout, 3500) ]) /\ sorted_from 0 ex_queue).
Check (C16_history_with_slack : forall std smol lifetime qt jit proc eps,
  (forall x, jit x <= eps) -> (forall x, proc x <= eps) -> qt_pos qt -> 0 < lifetime ->
  forall qs queue,
  Forall2 (fun q o => let '(s, r, t) := o in
             tq_start q <= t /\ t <= tq_start q + lifetime + eps /\
             match r with Ok (d, fl) => filter_of std q d = Ok (Some fl) | Err e => e = Timeout | _ => False end /\
             exists s', s = tq_start q :: s' /\ gaps (tq_start q) lifetime qt eps (tq_start q) s')
          qs (udp_history std smol lifetime qt jit proc qs queue)).
Check (C16_typed_is_extraction_of_raw : forall (W : Type) std q bs (w0 : W) raw,
  0 < bs -> class_is_data (tq_class q) = true ->
  rrset_of_raw std q bs w0 raw =
  match raw bs with
  | (wire, ev, Ok d, t) => (wire, ev, from_msg d (tq_type q), t)
  | (wire, ev, r, t) => (wire, ev, retype r Panic, t)
  end).
Check (C16_typed_refused_sends_nothing : forall (W : Type) std q bs (w0 : W) raw,
  bs = 0 \/ class_is_data (tq_class q) = false ->
  exists e, rrset_of_raw std q bs w0 raw = (w0, [], Err e, tq_start q) /\
            (e = BadParam \/ e = UnsupportedClass (tq_class q))).
Print Assumptions C16_leftovers_ignored. Print Assumptions C16_leftover_accepted_only_if_matching. Print Assumptions C16_typed_query_ignores_history. Print Assumptions C16_buffer_history_safe. Print Assumptions C16_buffer_history_example. Print Assumptions C16_history_refines_spec. Print Assumptions C16_history_example. Print Assumptions C16_history_with_slack. Print Assumptions C16_typed_is_extraction_of_raw. Print Assumptions C16_typed_refused_sends_nothing.
