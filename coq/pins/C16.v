From RsdnsModel Require Import Base RecordSet Client.
From RsdnsModel.Proofs Require Import ClientProofs.
From RsdnsModel.Properties Require Import C16.
Open Scope N_scope.
Check (C16_leftovers_ignored : forall std id qname qtype qclass pre post junk,
  Forall (fun x => accept_datagram std id qname qtype qclass x = Ok None) junk ->
  udp_receive std id qname qtype qclass (pre ++ junk ++ post) = udp_receive std id qname qtype qclass (pre ++ post)).
Check (C16_leftover_accepted_only_if_matching : forall std id qname qtype qclass pre d fl post,
  udp_receive std id qname qtype qclass (pre ++ d :: post) = Ok (Some (d, fl)) ->
  Forall (fun x => accept_datagram std id qname qtype qclass x = Ok None) pre ->
  accept_datagram std id qname qtype qclass d = Ok (Some fl)).
Check (C16_typed_query_ignores_history : forall std old d bs ty,
  lenN old = bs ->
  typed_parse_input std old d bs = recv_into bs d /\
  from_msg (typed_parse_input std old d bs) ty = from_msg (recv_into bs d) ty).
Check (C16_buffer_history_safe : forall std bs, 0 < bs -> forall h st, tq_inv bs st ->
  Forall (fun se => match snd se with TqDone r => r <= bs | _ => True end) h ->
  Forall (fun o => o = TqRan bs) (tq_run std bs st h)).
Check (C16_buffer_history_example : tq_inv 65535 (65535, 0) /\
  tq_run false 65535 (65535, 0) [(0, TqDone 120); (7, TqDropped); (0, TqDone 300); (3, TqFailed); (0, TqDropped); (1, TqDone 65535)] =
  [TqRan 65535; TqRan 65535; TqRan 65535; TqRan 65535; TqRan 65535; TqRan 65535]).
Print Assumptions C16_leftovers_ignored. Print Assumptions C16_leftover_accepted_only_if_matching. Print Assumptions C16_typed_query_ignores_history. Print Assumptions C16_buffer_history_safe. Print Assumptions C16_buffer_history_example.
