From RsdnsModel Require Import Base Client.
From RsdnsModel.Proofs Require Import ClientProofs.
From RsdnsModel.Properties Require Import C16.
Open Scope N_scope.
Check (C16_leftovers_ignored : forall std id qname qtype qclass pre post junk,
  Forall (fun x => accept_datagram std id qname qtype qclass x = Ok None) junk ->
  udp_receive std id qname qtype qclass (pre ++ junk ++ post) = udp_receive std id qname qtype qclass (pre ++ post)).
Check (C16_leftover_accepted_only_if_matching : forall std id qname qtype qclass pre d fl post,
  udp_receive std id qname qtype qclass (pre ++ d :: post) = Ok (Some (d, fl)) ->
  Forall (fun x => accept_datagram std id qname qtype qclass x = Ok None) pre ->
  accept_datagram std id qname qtype qclass d = Ok (Some fl)).
Print Assumptions C16_leftovers_ignored. Print Assumptions C16_leftover_accepted_only_if_matching.
