From Coq Require Import ZArith.
From RsdnsModel Require Import Base Client Timed.
From RsdnsModel.Proofs Require Import ClientProofs TimedProofs TimedGeneral.
From RsdnsModel.Properties Require Import C14.
Open Scope N_scope.
Check (C14_segmentation_independent : forall std segs segs' buf_len,
  concat segs = concat segs' -> tcp_exchange std segs buf_len = tcp_exchange std segs' buf_len).
Check (C14_framing : forall std segs buf_len,
  let s := concat segs in
  match tcp_exchange std segs buf_len with
  | Ok body => (2 <= length s)%nat /\ let n := be_val (firstn 2 s) 0 in
               n <= buf_len /\ body = firstn (N.to_nat n) (skipn 2 s) /\ lenN body = n
  | Err (BufferTooShort n) => (2 <= length s)%nat /\ n = be_val (firstn 2 s) 0 /\ buf_len < n
  | Err _ => (length s < 2)%nat \/ (length s < 2 + N.to_nat (be_val (firstn 2 s) 0))%nat
  | _ => False
  end).
Check (C14_framing_over_time : forall std smol q lifetime qt jit proc buf strategy arrs srv sends ev body t,
  client_query_timed std smol q lifetime qt jit proc buf strategy arrs srv = (sends, ev, Ok body, t) ->
  In EvTcpExchange ev -> framed buf (map snd (tp_bytes srv)) body).
Print Assumptions C14_segmentation_independent. Print Assumptions C14_framing. Print Assumptions C14_framing_over_time.
