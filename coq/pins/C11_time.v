From RsdnsModel Require Import Base Names Writer Client Timed TimedApi.
From RsdnsModel.Spec Require Import NameText.
From RsdnsModel.Proofs Require Import WriterSafe WriterLayout TimedProofs TimedCalls.
From RsdnsModel.Properties Require Import C11_time.
Open Scope N_scope.
Check (C11_refused_sends_nothing : forall std smol q cfg jit proc buf arrs srv wire ev r t,
  client_call_timed std smol q cfg jit proc buf arrs srv = (wire, ev, r, t) ->
  buf < 512 \/ valid_text (tq_name q) = false ->
  wire = ([], None) /\ ev = [] /\ t = tq_start q /\ match r with Ok _ => False | _ => True end).
Check (C11_wire_is_the_query : forall std smol q cfg jit proc buf arrs srv dgrams tcp ev r t,
  client_call_timed std smol q cfg jit proc buf arrs srv = ((dgrams, tcp), ev, r, t) ->
  512 <= buf -> valid_text (tq_name q) = true \/ dgrams <> [] \/ tcp <> None ->
  let opt := match cc_edns cfg with Some (ver, ups) => Some (ver, (N.min ups buf) mod 65536) | None => None end in
  let m := query_message (tq_id q) (tq_name q) (tq_type q) (tq_class q) (cc_rd cfg) opt in
  Forall (fun d => snd d = m) dgrams /\
  (forall b, tcp = Some b -> b = be_bytes 2 (lenN m mod 65536) ++ m) /\
  (tcp <> None <-> In EvTcpExchange ev)).
Check (C11_all_clients_same_over_time : forall smol smol' q cfg buf arrs srv,
  qt_pos (cc_qt cfg) -> 0 < cc_lifetime cfg ->
  client_call_timed true smol q cfg zero_jit zero_jit buf arrs srv =
  client_call_timed false smol' q cfg zero_jit zero_jit buf arrs srv).
Print Assumptions C11_refused_sends_nothing. Print Assumptions C11_wire_is_the_query. Print Assumptions C11_all_clients_same_over_time.
