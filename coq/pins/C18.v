From RsdnsModel Require Import Base Names.
From RsdnsModel.Spec Require Import NameText.
From RsdnsModel.Proofs Require Import NameOrder NameEqStr.
From RsdnsModel.Properties Require Import C18.
Open Scope N_scope.
Check (C18_eq_iff_cmp : forall a b, name_eq a b = true <-> name_cmp a b = Eq).
Check (C18_eq_is_fold : forall a b, name_eq a b = true <-> fold_case a = fold_case b).
Check (C18_cmp_is_lex : forall a b, name_cmp a b = lex (fold_case a) (fold_case b)).
Check (C18_cmp_antisym : forall a b, name_cmp a b = CompOpp (name_cmp b a)).
Check (C18_cmp_trans : forall a b c, name_cmp a b = Lt -> name_cmp b c = Lt -> name_cmp a c = Lt).
Check (C18_hash : forall a b, name_eq a b = true -> name_hash_feed a = name_hash_feed b).
Check (C18_hash_is_fold : forall a, name_hash_feed a = fold_case a).
Check (C18_eq_str_is_canon : forall t s,
  name_eq_str (t ++ [x2e]) s = name_eq (t ++ [x2e]) (canon_text s)).
Print Assumptions C18_eq_iff_cmp. Print Assumptions C18_eq_is_fold. Print Assumptions C18_cmp_is_lex. Print Assumptions C18_cmp_antisym. Print Assumptions C18_cmp_trans. Print Assumptions C18_hash. Print Assumptions C18_hash_is_fold. Print Assumptions C18_eq_str_is_canon.
