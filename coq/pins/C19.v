From RsdnsModel Require Import SendRules GenSend.
From RsdnsModel.Properties Require Import C19.
Check (C19_config_send_sync : is_send_sync ClientConfig_fields = true).
Check (C19_std_client_send_sync : is_send_sync std_ClientImpl = true /\ is_send_sync Client_wrapper = true).
Check (C19_async_client_send_sync : is_send_sync async_ClientImpl = true).
Check (C19_declared_captures_send : is_send async_ClientCtx = true /\ is_send std_ClientCtx = true /\
  is_send async_query_raw_params = true /\ is_send async_query_rrset_params = true /\ is_send async_new_params = true).
Check (C19_rules_reject_refcell : is_send_sync [("buf", App "RefCell" [App "Vec" [Leaf "u8"]])] = false /\
  is_send [("buf", App "RefCell" [App "Vec" [Leaf "u8"]])] = true /\
  is_send [("rng", Leaf "ThreadRng")] = false).
Print Assumptions C19_config_send_sync. Print Assumptions C19_std_client_send_sync. Print Assumptions C19_async_client_send_sync. Print Assumptions C19_declared_captures_send. Print Assumptions C19_rules_reject_refcell.
