From RsdnsModel Require Import Base Cursor Names Labels Header Tracker RData Reader.
From RsdnsModel.Spec Require Import WireName LinearPass RDataWire.
From RsdnsModel.Proofs Require Import Latch ReaderTotal LatchFull TrackerRefine SpecExec ParseSpec ReaderRefine MessageRT.
From RsdnsModel.Properties Require Import C09.
Open Scope N_scope.
Check (C09_stays_exhausted : forall msg r, r_done r = true ->
  (forall single as_ref, rd_question msg single as_ref r = (r, Err ReaderDone)) /\
  rd_skip_questions msg r = (r, Err ReaderDone) /\
  rd_marker msg r = (r, Err ReaderDone) /\ rd_header_ref msg r = (r, Err ReaderDone) /\
  (forall nk, rd_header_n msg nk r = (r, Err ReaderDone)) /\
  (forall mk, pos (r_cur r) = rdata_pos mk ->
     rd_skip_data mk r = (r, Err ReaderDone) /\ rd_data_bytes msg mk r = (r, Err ReaderDone) /\
     (forall ty, read_rdata msg ty (m_rdlen mk) <> None -> rd_data msg ty mk r = (r, Err ReaderDone)) /\
     rd_opt mk r = (r, Err ReaderDone)) /\
  (forall s, rd_seek msg s r = (r, Err ReaderDone)) /\
  rd_questions_count r = Ok (ONum 0) /\ rd_records_count r = Ok (ONum 0) /\
  (forall s, rd_records_count_in s r = Ok (ONum 0))).
Check (C09_error_latches : forall msg r, RInv msg r -> r_done r = false ->
  (forall single as_ref, latched (rd_question msg single as_ref r)) /\
  latched (rd_skip_questions msg r) /\
  latched (rd_marker msg r) /\ latched (rd_header_ref msg r) /\ (forall nk, latched (rd_header_n msg nk r)) /\
  (forall mk, mk_ok r mk -> pos (r_cur r) = rdata_pos mk ->
     latched (rd_skip_data mk r) /\ latched (rd_data_bytes msg mk r) /\
     (forall ty, read_rdata msg ty (m_rdlen mk) <> None -> latched (rd_data msg ty mk r)) /\
     (m_rtype mk = T_OPT -> latched (rd_opt mk r))) /\
  latched (rd_header msg r) /\
  (forall s, rd_seek msg s r = (r, Err (RecordsSectionOffsetUnknown s)) \/ latched (rd_seek msg s r))).
Check (C09_tracker_refines : forall nq an ns ar P,
  nq <= 65535 -> an <= 65535 -> ns <= 65535 -> ar <= 65535 -> (forall k, 1 <= P k <= 65535) ->
  forall ops tr idx hw idx' hw',
  Inv nq an ns ar P tr idx hw -> allowed nq an ns ar ops idx hw = Some (idx', hw') ->
  exists tr', run_t nq an ns ar P ops tr idx hw = Some (tr', idx', hw') /\ Inv nq an ns ar P tr' idx' hw').
Check (C09_tracker_init : forall nq an ns ar P,
  nq <= 65535 -> an <= 65535 -> ns <= 65535 -> ar <= 65535 -> (forall k, 1 <= P k <= 65535) ->
  forall h, h_qd h = nq -> h_an h = an -> h_ns h = ns -> h_ar h = ar -> Inv nq an ns ar P (tr_set tr_default h) 0 0).
Check (C09_counts : forall nq an ns ar P,
  nq <= 65535 -> an <= 65535 -> ns <= 65535 -> ar <= 65535 -> (forall k, 1 <= P k <= 65535) ->
  forall tr idx hw, Inv nq an ns ar P tr idx hw ->
  questions_left tr = Ok (nq - N.min idx nq) /\
  records_left_in tr 0 = Ok (an - rd nq an ns ar idx 0) /\ records_left_in tr 1 = Ok (ns - rd nq an ns ar idx 1) /\
  records_left_in tr 2 = Ok (ar - rd nq an ns ar idx 2) /\
  records_left tr = Ok ((an - rd nq an ns ar idx 0) + (ns - rd nq an ns ar idx 1) + (ar - rd nq an ns ar idx 2))).
Check (C09_seek : forall nq an ns ar P,
  nq <= 65535 -> an <= 65535 -> ns <= 65535 -> ar <= 65535 -> (forall k, 1 <= P k <= 65535) ->
  forall tr idx hw s, Inv nq an ns ar P tr idx hw -> s < 3 ->
  (known (lin nq an ns ar) (mkA idx hw false None) s = true ->
     section_offset tr s = Some (P (nq + sec_start (lin nq an ns ar) s)) /\
     Inv nq an ns ar P (tr_seek tr s) (nq + sec_start (lin nq an ns ar) s) hw) /\
  (known (lin nq an ns ar) (mkA idx hw false None) s = false -> section_offset tr s = None)).
Check (C09_record_section : forall nq an ns ar P,
  nq <= 65535 -> an <= 65535 -> ns <= 65535 -> ar <= 65535 -> (forall k, 1 <= P k <= 65535) ->
  forall tr idx hw, Inv nq an ns ar P tr idx hw -> nq <= idx -> idx < nq + nrec (lin nq an ns ar) ->
  let s := section_of (lin nq an ns ar) (idx - nq) in
  exists tr1, next_section tr (P idx) = (tr1, Some s) /\
    exists tr', section_read tr1 s (P (idx + 1)) = Ok tr' /\ Inv nq an ns ar P tr' (idx + 1) (N.max hw (idx + 1))).
Check (C09_tracker_example : allowed 1 2 0 1 [TQuestion; TRecord; TRecord; TSeek 0; TRecord; TSeek 1; TRecord] 0 0 = Some (4, 4) /\
  allowed 1 2 0 1 [TQuestion; TSeek 1] 0 0 = None /\
  exists tr, run_t 1 2 0 1 (fun k => 12 + 20 * k) [TQuestion; TRecord; TRecord; TSeek 0; TRecord; TSeek 1; TRecord]
                   (tr_set tr_default (mkHeader 7 0 1 2 0 1)) 0 0 = Some (tr, 4, 4)).
Check (C09_question_parse_is_spec : forall msg c, whole msg c ->
  match question_at msg (pos c) with
  | Some it => m_question_ref msg c = (c_set_pos c (a_end it), Ok (OQuestionRef c (a_type it) (a_class it))) /\
               a_start it = pos c
  | None => exists c' e, m_question_ref msg c = (c', Err e)
  end).
Check (C09_record_parse_is_spec : forall msg c p s, whole msg c ->
  match record_at msg (pos c) with
  | Some it =>
    (do* _ <- lift_c (skip_name msg); m_raw_marker msg p s) c =
    (c_set_pos c (a_type_off it + 10), Ok (mkMarker p (a_type_off it) (a_type it) (a_class it) (a_ttl it) (a_rdlen it) s)) /\
    a_start it = pos c /\ a_end it = a_type_off it + 10 + a_rdlen it /\
    a_data_ok it = (a_type_off it + 10 + a_rdlen it <=? lenN msg)
  | None => exists c' e, (do* _ <- lift_c (skip_name msg); m_raw_marker msg p s) c = (c', Err e)
  end).
Check (C09_reader_refines : forall msg nq an ns ar qs rs e1 e2, parsed msg nq an ns ar qs rs e1 e2 ->
  forall ops r idx hw idx' hw',
  RState msg nq an ns ar qs rs e2 r idx hw -> allowed nq an ns ar ops idx hw = Some (idx', hw') ->
  within nq an ns ar qs rs ops idx hw ->
  exists r', RState msg nq an ns ar qs rs e2 r' idx' hw' /\ prescribed msg nq an ns ar qs rs r' ops r idx hw).
Check (C09_complete_is_within : forall nq an ns ar qs rs, lenN qs = nq -> lenN rs = an + ns + ar ->
  forall ops idx hw res, allowed nq an ns ar ops idx hw = Some res -> within nq an ns ar qs rs ops idx hw).
Check (C09_unparsable_question_fails : forall msg nq an ns ar qs rs e1 e2, parsed msg nq an ns ar qs rs e1 e2 ->
  forall r idx hw, RState msg nq an ns ar qs rs e2 r idx hw ->
  idx = lenN qs -> idx < nq -> question_at msg e2 = None ->
  exists r' e, rd_question msg false true r = (r', Err e) /\ r_done r' = true).
Check (C09_unparsable_record_fails : forall msg nq an ns ar qs rs e1 e2, parsed msg nq an ns ar qs rs e1 e2 ->
  forall r idx hw, RState msg nq an ns ar qs rs e2 r idx hw ->
  lenN qs = nq -> idx = nq + lenN rs -> lenN rs < an + ns + ar ->
  match record_at msg e2 with
  | None => exists r' e, rd_marker msg r = (r', Err e) /\ r_done r' = true
  | Some it =>
    a_data_ok it = false ->
    let mk := mkMarker e2 (a_type_off it) (a_type it) (a_class it) (a_ttl it) (a_rdlen it) (section_of (lin nq an ns ar) (idx - nq)) in
    exists r1 r2 e, rd_marker msg r = (r1, Ok (OMarker mk)) /\ rd_skip_data mk r1 = (r2, Err e) /\ r_done r2 = true
  end).
Check (C09_question_flavours : forall msg nq an ns ar qs rs e1 e2, parsed msg nq an ns ar qs rs e1 e2 ->
  forall single as_ref r idx hw it,
  RState msg nq an ns ar qs rs e2 r idx hw -> getN qs idx = Some it ->
  (single = true -> idx + 1 = nq) -> (as_ref = false -> a_fits255 it = true) ->
  exists r' o, rd_question msg single as_ref r = (r', Ok o) /\ RState msg nq an ns ar qs rs e2 r' (idx + 1) (idx + 1) /\
    if as_ref then o = OQuestionRef (r_cur r) (a_type it) (a_class it)
    else exists ls e, spec_name msg (a_start it) = SAccept ls e /\ o = OQuestion (join_labels (map snd ls)) (a_type it) (a_class it)).
Check (C09_owned_question_too_long : forall msg nq an ns ar qs rs e1 e2, parsed msg nq an ns ar qs rs e1 e2 ->
  forall single r idx hw it,
  RState msg nq an ns ar qs rs e2 r idx hw -> getN qs idx = Some it ->
  (single = true -> idx + 1 = nq) -> a_fits255 it = false ->
  exists r' e, rd_question msg single false r = (r', Err e) /\ r_done r' = true).
Check (C09_record_header_flavours : forall msg nq an ns ar qs rs e1 e2, parsed msg nq an ns ar qs rs e1 e2 ->
  forall r idx hw it,
  RState msg nq an ns ar qs rs e2 r idx hw -> nq <= idx -> getN rs (idx - nq) = Some it ->
  let mk := mk_of nq an ns ar qs rs e2 idx it in
  (exists r1, rd_marker msg r = (r1, Ok (OMarker mk)) /\ RMid msg nq an ns ar qs rs e2 r1 idx hw it) /\
  (exists r1, rd_header_ref msg r = (r1, Ok (OHeaderRef (r_cur r) mk)) /\ RMid msg nq an ns ar qs rs e2 r1 idx hw it) /\
  (forall nk, a_fits255 it = true ->
     exists r1 ls e, spec_name msg (a_start it) = SAccept ls e /\
       rd_header_n msg nk r = (r1, Ok (OHeaderN (join_labels (map snd ls)) mk)) /\ RMid msg nq an ns ar qs rs e2 r1 idx hw it) /\
  (forall nk, a_fits255 it = false -> exists r1 e, rd_header_n msg nk r = (r1, Err e) /\ r_done r1 = true)).
Check (C09_record_data_flavours : forall msg nq an ns ar qs rs e1 e2, parsed msg nq an ns ar qs rs e1 e2 ->
  forall r1 idx hw it, RMid msg nq an ns ar qs rs e2 r1 idx hw it ->
  let mk := mk_of nq an ns ar qs rs e2 idx it in
  (exists r2, rd_skip_data mk r1 = (r2, Ok OUnit) /\ RState msg nq an ns ar qs rs e2 r2 (idx + 1) (N.max hw (idx + 1))) /\
  (exists r2, rd_data_bytes msg mk r1 = (r2, Ok (OBytes (a_type_off it + 10) (subN msg (a_type_off it + 10) (a_rdlen it)))) /\
              RState msg nq an ns ar qs rs e2 r2 (idx + 1) (N.max hw (idx + 1))) /\
  (a_type it = T_OPT ->
   exists r2, rd_opt mk r1 = (r2, Ok (OOpt (opt_from_msg (a_class it) (a_ttl it)))) /\
              RState msg nq an ns ar qs rs e2 r2 (idx + 1) (N.max hw (idx + 1))) /\
  (forall ty r2 x, read_rdata msg ty (a_rdlen it) <> None -> rd_data msg ty mk r1 = (r2, x) ->
     match x with
     | Ok o => (exists d, o = ORData d) /\ RState msg nq an ns ar qs rs e2 r2 (idx + 1) (N.max hw (idx + 1))
     | _ => r_done r2 = true
     end)).
Check (C09_counts_reader : forall msg nq an ns ar qs rs e1 e2, parsed msg nq an ns ar qs rs e1 e2 ->
  forall r idx hw, RState msg nq an ns ar qs rs e2 r idx hw ->
  rd_questions_count r = Ok (ONum (nq - N.min idx nq)) /\
  rd_records_count_in 0 r = Ok (ONum (an - rd nq an ns ar idx 0)) /\
  rd_records_count_in 1 r = Ok (ONum (ns - rd nq an ns ar idx 1)) /\
  rd_records_count_in 2 r = Ok (ONum (ar - rd nq an ns ar idx 2)) /\
  rd_records_count r = Ok (ONum ((an - rd nq an ns ar idx 0) + (ns - rd nq an ns ar idx 1) + (ar - rd nq an ns ar idx 2)))).
Check (C09_seek_by_skipping : forall msg nq an ns ar qs rs e1 e2, parsed msg nq an ns ar qs rs e1 e2 ->
  forall r hw s, RState msg nq an ns ar qs rs e2 r 0 hw -> s < 3 ->
  known (lin nq an ns ar) (mkA 0 hw false None) s = false ->
  lenN qs = nq -> sec_start (lin nq an ns ar) s <= lenN rs ->
  exists r', rd_seek msg s r = (r', Ok OUnit) /\
             RState msg nq an ns ar qs rs e2 r' (nq + sec_start (lin nq an ns ar) s) (N.max hw (nq + sec_start (lin nq an ns ar) s))).
Check (C09_seek_by_skipping_fails : forall msg nq an ns ar qs rs e1 e2, parsed msg nq an ns ar qs rs e1 e2 ->
  forall r hw s, RState msg nq an ns ar qs rs e2 r 0 hw -> s < 3 ->
  known (lin nq an ns ar) (mkA 0 hw false None) s = false ->
  (lenN qs < nq -> question_at msg e2 = None) ->
  (lenN qs = nq -> match record_at msg e2 with Some it => a_data_ok it = false | None => True end) ->
  lenN qs < nq \/ (lenN qs = nq /\ lenN rs < sec_start (lin nq an ns ar) s) ->
  exists r' e, rd_seek msg s r = (r', Err e) /\ r_done r' = true).
Check (C09_seek_refused : forall msg nq an ns ar qs rs e1 e2, parsed msg nq an ns ar qs rs e1 e2 ->
  forall r idx hw s, RState msg nq an ns ar qs rs e2 r idx hw -> s < 3 ->
  known (lin nq an ns ar) (mkA idx hw false None) s = false ->
  0 < idx -> idx <= lenN qs + lenN rs -> rd_seek msg s r = (r, Err (RecordsSectionOffsetUnknown s))).
Check (C09_reader_start : forall msg nq an ns ar qs rs e1 e2, parsed msg nq an ns ar qs rs e1 e2 ->
  forall h c, h_qd h = nq -> h_an h = an -> h_ns h = ns -> h_ar h = ar -> whole msg c -> pos c = 12 ->
  RState msg nq an ns ar qs rs e2 (mkReader c (tr_set tr_default h) false) 0 0).
Check (C09_linear_pass_parses : forall msg l, linear_of msg = Some l ->
  let rs := filter a_data_ok (l_rs l) in
  exists e1 e2, parsed msg (l_nq l) (l_an l) (l_ns l) (l_ar l) (l_qs l) rs e1 e2 /\
    (lenN (l_qs l) < l_nq l -> question_at msg e2 = None) /\
    (lenN (l_qs l) = l_nq l -> lenN rs < nrec l ->
     match record_at msg e2 with Some it => a_data_ok it = false | None => True end)).
Check (C09_example_run : exists qs rs e1 e2 h c,
    parsed example_msg 1 1 0 0 qs rs e1 e2 /\ lenN qs = 1 /\ lenN rs = 1 /\
    read_header example_msg (c_new example_msg) = (c, Ok h) /\
    let r0 := mkReader c (tr_set tr_default h) false in
    RState example_msg 1 1 0 0 qs rs e2 r0 0 0 /\
    allowed 1 1 0 0 [TQuestion; TRecord; TSeek 0; TRecord] 0 0 = Some (2, 2) /\
    within 1 1 0 0 qs rs [TQuestion; TRecord; TSeek 0; TRecord] 0 0 /\
    exists r', RState example_msg 1 1 0 0 qs rs e2 r' 2 2 /\
               prescribed example_msg 1 1 0 0 qs rs r' [TQuestion; TRecord; TSeek 0; TRecord] r0 0 0).
Print Assumptions C09_stays_exhausted. Print Assumptions C09_error_latches. Print Assumptions C09_tracker_refines. Print Assumptions C09_tracker_init. Print Assumptions C09_counts. Print Assumptions C09_seek. Print Assumptions C09_record_section. Print Assumptions C09_tracker_example. Print Assumptions C09_question_parse_is_spec. Print Assumptions C09_record_parse_is_spec. Print Assumptions C09_reader_refines. Print Assumptions C09_complete_is_within. Print Assumptions C09_unparsable_question_fails. Print Assumptions C09_unparsable_record_fails. Print Assumptions C09_question_flavours. Print Assumptions C09_owned_question_too_long. Print Assumptions C09_record_header_flavours. Print Assumptions C09_record_data_flavours. Print Assumptions C09_counts_reader. Print Assumptions C09_seek_by_skipping. Print Assumptions C09_seek_by_skipping_fails. Print Assumptions C09_seek_refused. Print Assumptions C09_reader_start. Print Assumptions C09_linear_pass_parses. Print Assumptions C09_example_run.
