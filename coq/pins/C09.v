From RsdnsModel Require Import Base Cursor Names Labels Header Tracker RData Reader.
From RsdnsModel.Proofs Require Import Latch.
From RsdnsModel.Properties Require Import C09.
Check C09_stays_exhausted_partial. Check C09_error_latches_partial.
Print Assumptions C09_stays_exhausted_partial. Print Assumptions C09_error_latches_partial.
