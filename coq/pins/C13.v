From RsdnsModel Require Import Base GenHeader Client.
From RsdnsModel.Proofs Require Import ClientProofs.
From RsdnsModel.Properties Require Import C13.
Open Scope N_scope.
Check (C13_strategy : forall std udp tcp,
  (~ In EvTcpExchange (fst (query_raw_impl std 2 udp tcp)) /\
   forall d fl, udp = Ok (d, fl) -> snd (query_raw_impl std 2 udp tcp) = Ok d) /\
  (fst (query_raw_impl std 1 udp tcp) = [EvTcpExchange] /\ snd (query_raw_impl std 1 udp tcp) = tcp) /\
  (forall d fl, udp = Ok (d, fl) ->
     (flag_tc fl = true -> query_raw_impl std 0 udp tcp = ([EvUdpExchange; EvTcpExchange], tcp)) /\
     (flag_tc fl = false -> query_raw_impl std 0 udp tcp = ([EvUdpExchange], Ok d)))).
Print Assumptions C13_strategy.
