From RsdnsModel Require Import Base GenHeader Client Timed.
From RsdnsModel.Proofs Require Import ClientProofs TimedProofs TimedGeneral.
From RsdnsModel.Properties Require Import C13.
Open Scope N_scope.
Check (C13_strategy : forall std udp tcp,
  (~ In EvTcpExchange (fst (query_raw_impl std 2 udp tcp)) /\
   forall d fl, udp = Ok (d, fl) -> snd (query_raw_impl std 2 udp tcp) = Ok d) /\
  (fst (query_raw_impl std 1 udp tcp) = [EvTcpExchange] /\ snd (query_raw_impl std 1 udp tcp) = tcp) /\
  (forall d fl, udp = Ok (d, fl) ->
     (flag_tc fl = true -> query_raw_impl std 0 udp tcp = ([EvUdpExchange; EvTcpExchange], tcp)) /\
     (flag_tc fl = false -> query_raw_impl std 0 udp tcp = ([EvUdpExchange], Ok d)))).
Check (C13_strategy_over_time : forall std smol q lifetime qt jit proc buf strategy arrs srv sends ev r t,
  client_query_timed std smol q lifetime qt jit proc buf strategy arrs srv = (sends, ev, r, t) ->
  (strategy = 2 -> ev = [EvUdpExchange]) /\
  (strategy = 1 -> ev = [EvTcpExchange] /\ sends = []) /\
  (strategy = 0 -> exists r1 t1 rest1,
     exchange_of std smol q lifetime qt jit proc (deliver buf arrs) = (sends, r1, t1, rest1) /\
     match r1 with
     | Ok (d, fl) => if flag_tc fl then ev = [EvUdpExchange; EvTcpExchange] else ev = [EvUdpExchange] /\ r = Ok d /\ t = t1
     | _ => ev = [EvUdpExchange] /\ t = t1
     end)).
Print Assumptions C13_strategy. Print Assumptions C13_strategy_over_time.
