(* pins/C03.v — compiled on every check: the statements are pinned (a weakened theorem no longer
   type-checks against them) and the assumptions of each are printed. *)
From RsdnsModel Require Import Base Cursor Names Labels.
From RsdnsModel.Spec Require Import WireName.
From RsdnsModel.Proofs Require Import CursorSafe LabelsTotal LabelsSound.
From RsdnsModel.Properties Require Import C03.
Open Scope N_scope.
Check (C03_read_sound : forall msg nk c t c',
  cwf msg c -> read_name msg nk c = Ok (t, c') ->
  exists ls, expands (vis msg c) None 0 (pos c) ls /\
             Forall (fun l => label_ok (snd l) = true) ls /\
             t = join_labels (map snd ls) /\ wire_len (map snd ls) <= 255 /\
             resume_at (vis msg c) (pos c) (pos c') /\ lim c' = lim c /\ orig c' = orig c).
Check (C03_skip_sound : forall msg c c',
  cwf msg c -> skip_name msg c = Ok c' ->
  exists ls, expands (vis msg c) None 0 (pos c) ls /\
             Forall (fun l => label_ok (snd l) = true) ls /\
             resume_at (vis msg c) (pos c) (pos c') /\ lim c' = lim c /\ orig c' = orig c).
Check (C03_read_total : forall msg nk c, cwf msg c -> defined (read_name msg nk c)).
Check (C03_skip_total : forall msg c, cwf msg c -> defined (skip_name msg c)).
Check (C03_reject : forall msg nk c,
  cwf msg c ->
  ~ (exists ls, expands (vis msg c) None 0 (pos c) ls /\
                Forall (fun l => label_ok (snd l) = true) ls /\ wire_len (map snd ls) <= 255) ->
  exists e, read_name msg nk c = Err e).
Print Assumptions C03_read_sound.
Print Assumptions C03_skip_sound.
Print Assumptions C03_read_total.
Print Assumptions C03_skip_total.
Print Assumptions C03_reject.
