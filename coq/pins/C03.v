From RsdnsModel Require Import Base Cursor Names Labels.
From RsdnsModel.Spec Require Import WireName.
From RsdnsModel.Proofs Require Import CursorSafe LabelsTotal LabelsSound LabelsComplete SpecExec.
From RsdnsModel.Properties Require Import C03.
Open Scope N_scope.
Check (C03_read_sound : forall msg nk c t c',
  cwf msg c -> read_name msg nk c = Ok (t, c') ->
  exists ls, expands (vis msg c) None 0 (pos c) ls /\
             Forall (fun l => label_ok (snd l) = true) ls /\
             t = join_labels (map snd ls) /\ wire_len (map snd ls) <= 255 /\
             resume_at (vis msg c) (pos c) (pos c') /\ lim c' = lim c /\ orig c' = orig c).
Check (C03_skip_sound : forall msg c c',
  cwf msg c -> skip_name msg c = Ok c' ->
  exists ls, expands (vis msg c) None 0 (pos c) ls /\
             Forall (fun l => label_ok (snd l) = true) ls /\
             resume_at (vis msg c) (pos c) (pos c') /\ lim c' = lim c /\ orig c' = orig c).
Check (C03_read_total : forall msg nk c, cwf msg c -> defined (read_name msg nk c)).
Check (C03_skip_total : forall msg c, cwf msg c -> defined (skip_name msg c)).
Check (C03_reject : forall msg nk c,
  cwf msg c ->
  ~ (exists ls, expands (vis msg c) None 0 (pos c) ls /\
                Forall (fun l => label_ok (snd l) = true) ls /\ wire_len (map snd ls) <= 255) ->
  exists e, read_name msg nk c = Err e).
Check (C03_read_complete : forall msg nk c ls,
  cwf msg c -> expands (vis msg c) None 0 (pos c) ls ->
  Forall (fun l => label_ok (snd l) = true) ls -> wire_len (map snd ls) <= 255 ->
  exists c', read_name msg nk c = Ok (join_labels (map snd ls), c') /\
    resume_at (vis msg c) (pos c) (pos c') /\ lim c' = lim c /\ orig c' = orig c).
Check (C03_skip_complete : forall msg c ls,
  cwf msg c -> expands (vis msg c) None 0 (pos c) ls ->
  Forall (fun l => label_ok (snd l) = true) ls -> wire_len (map snd ls) <= 255 ->
  exists c', skip_name msg c = Ok c' /\ resume_at (vis msg c) (pos c) (pos c')).
Check (C03_oracle_accepts_iff : forall msg p ls r,
  spec_name msg p = SAccept ls r <-> expands msg None 0 p ls /\ resume_at msg p r).
Check (C03_oracle_rejects_iff : forall msg p,
  (exists w, spec_name msg p = SReject w) <-> ~ exists ls, expands msg None 0 p ls).
Print Assumptions C03_read_sound. Print Assumptions C03_skip_sound. Print Assumptions C03_read_total. Print Assumptions C03_skip_total. Print Assumptions C03_reject. Print Assumptions C03_read_complete. Print Assumptions C03_skip_complete. Print Assumptions C03_oracle_accepts_iff. Print Assumptions C03_oracle_rejects_iff.
