From Coq Require Import ZArith Lia.
From RsdnsModel Require Import Base GenConst GenCursor GenHeader GenReader GenSpec Cursor Names Labels Header Tracker RData Reader Writer.
From RsdnsModel.Spec Require Import WireName LinearPass RDataWire.
From RsdnsModel.Proofs Require Import CursorSafe ListN Bits WriterLayout RecordRT RDataRT ParseSpec RecordFull TrackerRefine ReaderRefine MessageRT RDataCompressed EndToEnd FieldLeaves.
From RsdnsModel.Properties Require Import C02.
Open Scope N_scope.
Check (C02_header_fields : forall msg, 12 <= lenN msg ->
  read_header msg (c_new msg) =
  (c_set_pos (c_new msg) 12,
   Ok (mkHeader (be16 msg 0) (be16 msg 2) (be16 msg 4) (be16 msg 6) (be16 msg 8) (be16 msg 10)))).
Check (C02_flags : forall w, w < 65536 ->
  flag_qr w = N.testbit w 15 /\ flag_opcode w = (w / 2048) mod 16 /\ flag_aa w = N.testbit w 10 /\
  flag_tc w = N.testbit w 9 /\ flag_rd w = N.testbit w 8 /\ flag_ra w = N.testbit w 7 /\ flag_rcode w = w mod 16).
Check (C02_opt_fields : forall ttl, ttl < 2 ^ 32 ->
  opt_rcode_extension ttl = ttl / 2 ^ 24 /\ opt_version ttl = (ttl / 2 ^ 16) mod 256 /\ opt_flags ttl = ttl mod 65536).
Check (C02_opt_do : forall f, opt_dnssec_ok f = N.testbit f 15).
Check (C02_a_record_roundtrip_plain : forall msg pre ls cl ttl addr post nk c p s,
  msg = pre ++ wire_encode ls ++ fixed_wire T_A cl ttl 4 ++ be_bytes 4 addr ++ post ->
  cwf msg c -> orig c = None -> pos c = lenN pre -> lim c = lenN msg ->
  Forall (fun l => label_ok l = true) ls -> wire_len ls <= 255 ->
  cl < 65536 -> ttl < 4294967296 -> addr < 4294967296 ->
  exists c1 c2 mk m,
    read_name msg nk c = Ok (join_labels ls, c1) /\
    m_raw_marker msg p s c1 = (c2, Ok mk) /\
    m_rtype mk = T_A /\ m_rclass mk = cl /\ m_ttl mk = ttl /\ m_rdlen mk = 4 /\ m_section mk = s /\
    read_rdata msg T_A (m_rdlen mk) = Some m /\ snd (m c2) = Ok (RD_A addr) /\
    pos (fst (m c2)) = lenN pre + wire_len ls + 10 + 4).
Check (C02_fixed_part_roundtrip : forall msg pre post c p s ty cl ttl rdlen,
  msg = pre ++ fixed_wire ty cl ttl rdlen ++ post -> cwf msg c -> pos c = lenN pre -> lenN pre + 10 <= lim c ->
  ty < 65536 -> cl < 65536 -> ttl < 4294967296 -> rdlen < 65536 ->
  m_raw_marker msg p s c = (c_set_pos c (lenN pre + 10), Ok (mkMarker p (lenN pre) ty cl ttl rdlen s))).
Check (C02_rdata_roundtrip_all_types : forall msg ty a,
  rdata_type_ok ty a = true -> ardata_ok a = true ->
  exists m, read_rdata msg ty (lenN (rdata_enc a)) = Some m /\ consumesW msg m (rdata_enc a) (rdata_val a)).
Check (C02_record_roundtrip : forall msg nk c ls r pre post ty cl ttl a p s,
  whole msg c -> expands msg None 0 (pos c) ls -> resume_at msg (pos c) r ->
  Forall (fun l => label_ok (snd l) = true) ls -> wire_len (map snd ls) <= 255 ->
  msg = pre ++ fixed_wire ty cl ttl (lenN (rdata_enc a)) ++ rdata_enc a ++ post -> lenN pre = r ->
  rdata_type_ok ty a = true -> ardata_ok a = true ->
  ty < 65536 -> cl < 65536 -> ttl < 4294967296 -> lenN (rdata_enc a) < 65536 ->
  exists c1 c2 c3 mk m,
    read_name msg nk c = Ok (join_labels (map snd ls), c1) /\
    m_raw_marker msg p s c1 = (c2, Ok mk) /\
    m_rtype mk = ty /\ m_rclass mk = cl /\ m_ttl mk = ttl /\ m_rdlen mk = lenN (rdata_enc a) /\ m_section mk = s /\
    read_rdata msg ty (m_rdlen mk) = Some m /\ m c2 = (c3, Ok (rdata_val a)) /\
    pos c3 = r + 10 + lenN (rdata_enc a)).
Check (C02_standing_items : forall msg,
  (forall p q e, question_stands msg p q e -> question_at msg p = Some (qitem p q e)) /\
  (forall p x e, record_stands msg p x e -> record_at msg p = Some (ritem p x e))).
Check (C02_whole_message_parsed : forall msg nq an ns ar (qs : list squestion) (rs : list srecord) e1 e2,
  lenN msg <= 65535 -> 12 <= lenN msg ->
  questions_stand msg 12 qs e1 -> records_stand msg e1 rs e2 ->
  lenN qs = nq -> lenN rs = an + ns + ar -> nq <= 65535 -> an <= 65535 -> ns <= 65535 -> ar <= 65535 ->
  exists qends rends,
    parsed msg nq an ns ar (qitems 12 qs qends) (ritems e1 rs rends) e1 e2 /\
    lenN (qitems 12 qs qends) = nq /\ lenN (ritems e1 rs rends) = an + ns + ar /\
    qstands msg 12 qs qends /\ rstands msg e1 rs rends).
Check (C02_standing_record_decodes : forall msg p x e c a,
  record_stands msg p x e -> sr_data x = SVal a -> whole msg c -> pos c = a_type_off (ritem p x e) + 10 ->
  exists m, read_rdata msg (sr_type x) (a_rdlen (ritem p x e)) = Some m /\
            m c = (c_set_pos c e, Ok (rdata_val a))).
Check (C02_standing_record_bytes : forall msg p x e, record_stands msg p x e ->
  subN msg (a_type_off (ritem p x e) + 10) (a_rdlen (ritem p x e)) = sdata_enc (sr_data x)).
Check (C02_whole_message_example : let q := mkSQ [(12, [x61])] 1 1 in
  let x := mkSR [(12, [x61])] 1 1 60 (SVal (A_A 16909060)) in
  questions_stand example_msg 12 [q] 19 /\ records_stand example_msg 19 [x] 35 /\ lenN example_msg = 35).
Check (C02_reader_record_end_to_end : forall msg qs rs nq an ns ar e1 e2,
  lenN msg <= 65535 -> 12 <= lenN msg -> questions_stand msg 12 qs e1 -> records_stand msg e1 rs e2 ->
  lenN qs = nq -> lenN rs = an + ns + ar -> nq <= 65535 -> an <= 65535 -> ns <= 65535 -> ar <= 65535 ->
  exists qends rends,
    parsed msg nq an ns ar (qitems 12 qs qends) (ritems e1 rs rends) e1 e2 /\ rstands msg e1 rs rends /\
    forall k p x e a r hw,
      getN (ritems e1 rs rends) k = Some (ritem p x e) -> record_stands msg p x e -> sr_data x = SVal a ->
      RState msg nq an ns ar (qitems 12 qs qends) (ritems e1 rs rends) e2 r (nq + k) hw ->
      exists r1 mk r2,
        rd_header_n msg Inline r = (r1, Ok (OHeaderN (text_of_labels (sr_labels x)) mk)) /\
        m_off mk = p /\ m_rtype mk = sr_type x /\ m_rclass mk = sr_class x /\ m_ttl mk = sr_ttl x /\
        m_rdlen mk = lenN (rdata_enc a) /\ m_section mk = section_of (lin nq an ns ar) k /\
        rd_data msg (sr_type x) mk r1 = (r2, Ok (ORData (rdata_val a))) /\
        RState msg nq an ns ar (qitems 12 qs qends) (ritems e1 rs rends) e2 r2 (nq + k + 1) (N.max hw (nq + k + 1))).
Check (C02_rdata_compressed_names : forall msg c p rd,
  cwf msg c -> orig c = None -> pos c = p -> p + rd <= lim c ->
  (forall ty ls, is_name_type ty = true -> name_in msg (p + rd) p ls (p + rd) ->
     exists m, read_rdata msg ty rd = Some m /\ m c = (c_set_pos c (p + rd), Ok (RD_Name ty (join_labels (map snd ls))))) /\
  (forall pref ls, pref < 65536 -> 2 <= rd -> subN msg p 2 = be_bytes 2 pref -> name_in msg (p + rd) (p + 2) ls (p + rd) ->
     exists m, read_rdata msg T_MX rd = Some m /\ m c = (c_set_pos c (p + rd), Ok (RD_Mx pref (join_labels (map snd ls))))) /\
  (forall ls1 ls2 r1, name_in msg (p + rd) p ls1 r1 -> name_in msg (p + rd) r1 ls2 (p + rd) ->
     exists m, read_rdata msg T_MINFO rd = Some m /\
               m c = (c_set_pos c (p + rd), Ok (RD_Minfo (join_labels (map snd ls1)) (join_labels (map snd ls2))))) /\
  (forall ls1 ls2 r1 r2 s rf rt ex mi,
     name_in msg (p + rd) p ls1 r1 -> name_in msg (p + rd) r1 ls2 r2 -> r2 + 20 = p + rd ->
     s < 4294967296 -> rf < 4294967296 -> rt < 4294967296 -> ex < 4294967296 -> mi < 4294967296 ->
     subN msg r2 4 = be_bytes 4 s -> subN msg (r2 + 4) 4 = be_bytes 4 rf -> subN msg (r2 + 8) 4 = be_bytes 4 rt ->
     subN msg (r2 + 12) 4 = be_bytes 4 ex -> subN msg (r2 + 16) 4 = be_bytes 4 mi ->
     exists m, read_rdata msg T_SOA rd = Some m /\
               m c = (c_set_pos c (p + rd), Ok (RD_Soa (join_labels (map snd ls1)) (join_labels (map snd ls2)) s rf rt ex mi)))).
Check (C02_rdata_compressed_example : name_in example_cname_msg 35 31 [(31, [x62]); (12, [x61])] 35 /\
  exists m, read_rdata example_cname_msg T_CNAME 4 = Some m /\
            m (c_with_pos example_cname_msg 31) = (c_with_pos example_cname_msg 35, Ok (RD_Name T_CNAME [x62; x2e; x61; x2e]))).
Check (C02_fields_are_the_words_read : forall w,
  (marker_field_type w = w /\ marker_field_class w = w /\ marker_field_ttl w = w /\ marker_field_rdlen w = w) /\
  (iter_field_type w = w /\ iter_field_class w = w /\ iter_field_ttl w = w /\ iter_field_rdlen w = w)).
Print Assumptions C02_header_fields. Print Assumptions C02_flags. Print Assumptions C02_opt_fields. Print Assumptions C02_opt_do. Print Assumptions C02_a_record_roundtrip_plain. Print Assumptions C02_fixed_part_roundtrip. Print Assumptions C02_rdata_roundtrip_all_types. Print Assumptions C02_record_roundtrip. Print Assumptions C02_standing_items. Print Assumptions C02_whole_message_parsed. Print Assumptions C02_standing_record_decodes. Print Assumptions C02_standing_record_bytes. Print Assumptions C02_whole_message_example. Print Assumptions C02_reader_record_end_to_end. Print Assumptions C02_rdata_compressed_names. Print Assumptions C02_rdata_compressed_example. Print Assumptions C02_fields_are_the_words_read.
