From Coq Require Import ZArith Lia.
From RsdnsModel Require Import Base GenConst GenCursor GenHeader GenSpec Cursor Header.
From RsdnsModel.Proofs Require Import CursorSafe ListN Bits.
From RsdnsModel.Properties Require Import C02.
Open Scope N_scope.
Check (C02_header_fields : forall msg, 12 <= lenN msg ->
  read_header msg (c_new msg) =
  (c_set_pos (c_new msg) 12,
   Ok (mkHeader (be16 msg 0) (be16 msg 2) (be16 msg 4) (be16 msg 6) (be16 msg 8) (be16 msg 10)))).
Check (C02_flags : forall w, w < 65536 ->
  flag_qr w = N.testbit w 15 /\ flag_opcode w = (w / 2048) mod 16 /\ flag_aa w = N.testbit w 10 /\
  flag_tc w = N.testbit w 9 /\ flag_rd w = N.testbit w 8 /\ flag_ra w = N.testbit w 7 /\ flag_rcode w = w mod 16).
Check (C02_opt_fields : forall ttl, ttl < 2 ^ 32 ->
  opt_rcode_extension ttl = ttl / 2 ^ 24 /\ opt_version ttl = (ttl / 2 ^ 16) mod 256 /\ opt_flags ttl = ttl mod 65536).
Check (C02_opt_do : forall f, opt_dnssec_ok f = N.testbit f 15).
Print Assumptions C02_header_fields. Print Assumptions C02_flags. Print Assumptions C02_opt_fields. Print Assumptions C02_opt_do.
