From RsdnsModel Require Import Base Names Writer.
From RsdnsModel.Spec Require Import NameText.
From RsdnsModel.Proofs Require Import WriterSafe.
From RsdnsModel.Properties Require Import C11.
Open Scope N_scope.
Check (C11_no_oob_write : forall buf id qname qt qc rd opt, query_write buf id qname qt qc rd opt <> UB).
Check (C11_refuse_invalid : forall buf id qname qt qc rd opt b n,
  query_write buf id qname qt qc rd opt = Ok (b, n) -> valid_text qname = true).
Check (C11_name_encoder_sound : forall w s w' n, write_name w s = Ok (w', n) -> check_name_bytes s = Ok tt /\ n <= 255).
Check (C11_std_async_same : forall id qname qt qc rd edns buflen,
  prepare_message true id qname qt qc rd edns buflen = prepare_message false id qname qt qc rd edns buflen).
Print Assumptions C11_no_oob_write. Print Assumptions C11_refuse_invalid. Print Assumptions C11_name_encoder_sound.
Print Assumptions C11_std_async_same. Print Assumptions C11_example.
