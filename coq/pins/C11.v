From RsdnsModel Require Import Base Names Writer.
From RsdnsModel.Spec Require Import NameText.
From RsdnsModel.Proofs Require Import WriterSafe WriterLayout.
From RsdnsModel.Properties Require Import C11.
Open Scope N_scope.
Check (C11_no_oob_write : forall buf id qname qt qc rd opt,
  query_write buf id qname qt qc rd opt <> UB).
Check (C11_refuse_invalid : forall buf id qname qt qc rd opt b n,
  query_write buf id qname qt qc rd opt = Ok (b, n) -> valid_text qname = true).
Check (C11_name_encoder_sound : forall w s w' n,
  write_name w s = Ok (w', n) -> check_name_bytes s = Ok tt /\ n <= 255).
Check (C11_std_async_same : forall id qname qt qc rd edns buflen,
  prepare_message true id qname qt qc rd edns buflen = prepare_message false id qname qt qc rd edns buflen).
Check (C11_example : prepare_message true 4660 [x77;x77;x77;x2e;x61] 1 1 true (Some (0, 4096)) 1232 =
  Ok [x00;x22; x12;x34; x01;x00; x00;x01; x00;x00; x00;x00; x00;x01;
      x03;x77;x77;x77;x01;x61;x00; x00;x01; x00;x01;
      x00; x00;x29; x04;xd0; x00;x00;x00;x00; x00;x00]).
Check (C11_exact_layout : forall buf id qname qt qc rd opt b n,
  query_write buf id qname qt qc rd opt = Ok (b, n) ->
  let m := query_message id qname qt qc rd opt in
  n = 2 + lenN m /\ n <= lenN buf /\ b = put buf 0 (be_bytes 2 ((lenN m) mod 65536) ++ m)).
Check (C11_clients_message : forall std id qname qt qc rd edns recv_len b,
  prepare_message std id qname qt qc rd edns recv_len = Ok b ->
  let opt := match edns with Some (ver, ups) => Some (ver, (N.min ups recv_len) mod 65536) | None => None end in
  let m := query_message id qname qt qc rd opt in
  b = be_bytes 2 (lenN m mod 65536) ++ m).
Print Assumptions C11_no_oob_write. Print Assumptions C11_refuse_invalid. Print Assumptions C11_name_encoder_sound. Print Assumptions C11_std_async_same. Print Assumptions C11_example. Print Assumptions C11_exact_layout. Print Assumptions C11_clients_message.
