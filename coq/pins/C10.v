From RsdnsModel Require Import Base Cursor Names Labels Header Tracker RData Reader Script.
From RsdnsModel.Proofs Require Import RandAccess.
From RsdnsModel.Properties Require Import C10.
Open Scope N_scope.
Check (C10_at_pure : forall msgs w i msg r mk,
  reachable msgs w -> getN (w_msgs w) i = Some msg -> getN (w_readers w) i = Some (Some r) ->
  rd_bytes_at msg mk r = raw_pure msg mk /\
  (forall ty, rd_data_at msg ty mk r = rdata_pure msg ty mk) /\
  rd_name_ref_at mk r = Ok (ONameRef (at_cursor msg mk))).
Check (C10_history_independent : forall msgs1 msgs2 w1 w2 i j msg r1 r2 mk ty,
  reachable msgs1 w1 -> reachable msgs2 w2 ->
  getN (w_msgs w1) i = Some msg -> getN (w_readers w1) i = Some (Some r1) ->
  getN (w_msgs w2) j = Some msg -> getN (w_readers w2) j = Some (Some r2) ->
  rd_bytes_at msg mk r1 = rd_bytes_at msg mk r2 /\
  rd_data_at msg ty mk r1 = rd_data_at msg ty mk r2 /\
  rd_name_ref_at mk r1 = rd_name_ref_at mk r2).
Print Assumptions C10_at_pure.
Print Assumptions C10_history_independent.
Print Assumptions C10_witness.
