From RsdnsModel Require Import Base Cursor Names Labels Header Tracker RData Reader Script.
From RsdnsModel.Proofs Require Import RandAccess.
From RsdnsModel.Properties Require Import C10.
Open Scope N_scope.
Check (C10_at_pure : forall msgs w i msg r mk,
  reachable msgs w -> getN (w_msgs w) i = Some msg -> getN (w_readers w) i = Some (Some r) ->
  rd_bytes_at msg mk r = raw_pure msg mk /\
  (forall ty, rd_data_at msg ty mk r = rdata_pure msg ty mk) /\
  rd_name_ref_at mk r = Ok (ONameRef (at_cursor msg mk))).
Check (C10_history_independent : forall msgs1 msgs2 w1 w2 i j msg r1 r2 mk ty,
  reachable msgs1 w1 -> reachable msgs2 w2 ->
  getN (w_msgs w1) i = Some msg -> getN (w_readers w1) i = Some (Some r1) ->
  getN (w_msgs w2) j = Some msg -> getN (w_readers w2) j = Some (Some r2) ->
  rd_bytes_at msg mk r1 = rd_bytes_at msg mk r2 /\
  rd_data_at msg ty mk r1 = rd_data_at msg ty mk r2 /\
  rd_name_ref_at mk r1 = rd_name_ref_at mk r2).
Check (C10_witness : let msg := [x00;x01;x81;x80;x00;x00;x00;x02;x00;x00;x00;x00;
              x00;x00;x01;x00;x01;x00;x00;x00;x3c;x00;x03;x01;x02;x03;
              x00;x00;x01;x00;x01;x00;x00;x00;x3c;x00;x04;x09;x08;x07;x06] in
  let w := world_init [msg] in
  let w1 := fst (step w 0 CHeader) in
  let w2 := fst (step w1 0 CMarker) in
  let w3 := fst (step w2 0 (CData 1 0)) in         
  let w4 := fst (step (fst (step (fst (step (fst (step w 0 CHeader)) 0 CMarker)) 0 (CSkipData 0))) 0 CMarker) in
  match getN (w_markers w4) 1, getN (w_readers w3) 0 with
  | Some mk2, Some (Some r) => r_done r = true /\ rd_data_at msg 1 mk2 r = Ok (ORData (RD_A 151521030))
  | _, _ => False
  end).
Print Assumptions C10_at_pure. Print Assumptions C10_history_independent. Print Assumptions C10_witness.
