From RsdnsModel Require Import Base Cursor Names Labels Header Tracker RData Reader Script.
From RsdnsModel.Proofs Require Import CursorSafe ListN NoUB.
From RsdnsModel.Properties Require Import C17.
Open Scope N_scope.
Check (C17_no_ub : forall (msgs : list (list byte)) (cs : list item),
  Forall (fun o => o <> UB) (run_script (world_init msgs) cs)).
Check (C17_slices_inside : forall msg (r : reader) (mk : marker) off bs,
  cwf msg (r_cur r) -> rd_bytes_at msg mk r = Ok (OBytes off bs) ->
  off + lenN bs <= lenN msg /\ bs = subN msg off (lenN bs)).
Print Assumptions C17_no_ub. Print Assumptions C17_slices_inside.
