From RsdnsModel Require Import Base GenReader GenTypes Cursor Names Labels Header Tracker RData Reader Script RecordSet Iter.
From RsdnsModel.Proofs Require Import CursorSafe LabelsTotal NoUB Defined ReaderTotal FromMsgTotal IterTotal.
From RsdnsModel.Properties Require Import C01.
Open Scope N_scope.
Check (C01_name_walk_total : forall msg nk c, cwf msg c ->
  defined (read_name msg nk c) /\ defined (skip_name msg c)).
Check (C01_name_walk_bound : forall msg st s, linv msg st ->
  label_step msg st = Ok s ->
  match s with
  | LEnd _ => True
  | LLabel _ _ st' | LJump st' => linv msg st' /\ lmeasure st' < lmeasure st
  end).
Check (C01_never_out_of_bounds : forall (msgs : list (list byte)) (cs : list item),
  Forall (fun o => o <> UB) (run_script (world_init msgs) cs)).
Check (C01_cursor_total : forall msg c n, cwf msg c ->
  defined (c_u8 msg c) /\ defined (c_slice msg c n) /\ defined (c_skip c n) /\ defined (c_window c n) /\
  defined (c_close_window c) /\ (0 < n -> defined (c_be msg c n))).
Check (C01_rdata_total : forall msg ty rd m c, read_rdata msg ty rd = Some m -> cwf msg c ->
  cwf msg (fst (m c)) /\ defined (snd (m c))).
Check (C01_borrowed_names_total : forall msg c1 c2, cwf msg c1 -> cwf msg c2 ->
  defined (nameref_eq msg c1 c2) /\ defined (labels_drain msg c1)).
Check (C01_reader_start : forall msg r, reader_new msg = Ok r ->
  RInv msg r /\ r_tr r = tr_default /\ rgood msg (rd_header msg r)).
Check (C01_reader_total : forall msg r, RInv msg r ->
  (forall single as_ref, rgood msg (rd_question msg single as_ref r)) /\
  rgood msg (rd_skip_questions msg r) /\
  (rgood msg (rd_marker msg r) /\
   forall r' mk, rd_marker msg r = (r', Ok (OMarker mk)) -> mk_ok r' mk /\ pos (r_cur r') = rdata_pos mk) /\
  (rgood msg (rd_header_ref msg r) /\
   forall r' nref mk, rd_header_ref msg r = (r', Ok (OHeaderRef nref mk)) -> mk_ok r' mk /\ pos (r_cur r') = rdata_pos mk) /\
  (forall nk, rgood msg (rd_header_n msg nk r) /\
   forall r' n mk, rd_header_n msg nk r = (r', Ok (OHeaderN n mk)) -> mk_ok r' mk /\ pos (r_cur r') = rdata_pos mk) /\
  (forall mk, mk_ok r mk -> pos (r_cur r) = rdata_pos mk ->
     rgood msg (rd_skip_data mk r) /\ rgood msg (rd_data_bytes msg mk r) /\ (forall ty, rgood msg (rd_data msg ty mk r)) /\
     (m_rtype mk = T_OPT -> rgood msg (rd_opt mk r))) /\
  (forall s, s < 3 -> rgood msg (rd_seek msg s r)) /\
  (defined (rd_questions_count r) /\ defined (rd_records_count r) /\ forall s, defined (rd_records_count_in s r)) /\
  (forall ty mk, defined (rd_bytes_at msg mk r) /\ defined (rd_data_at msg ty mk r) /\ defined (rd_name_ref_at mk r))).
Check (C01_record_set_total : forall msg ty, In ty data_types -> defined (from_msg msg ty)).
Check (C01_iterator_total : forall msg,
  defined (iter_new msg) /\
  forall h off, iter_new msg = Ok (h, off) ->
    match snd (iter_questions msg h) with
    | None => True
    | Some r => defined r /\ forall q, r <> Ok q
    end /\
    defined (iter_records msg h off)).
Print Assumptions C01_name_walk_total. Print Assumptions C01_name_walk_bound. Print Assumptions C01_never_out_of_bounds. Print Assumptions C01_cursor_total. Print Assumptions C01_rdata_total. Print Assumptions C01_borrowed_names_total. Print Assumptions C01_reader_start. Print Assumptions C01_reader_total. Print Assumptions C01_record_set_total. Print Assumptions C01_iterator_total.
