From RsdnsModel Require Import Base Cursor Names Labels Header Tracker RData Reader Script.
From RsdnsModel.Proofs Require Import CursorSafe LabelsTotal NoUB Defined.
From RsdnsModel.Properties Require Import C01.
Open Scope N_scope.
Check (C01_name_walk_total : forall msg nk c, cwf msg c -> defined (read_name msg nk c) /\ defined (skip_name msg c)).
Check (C01_name_walk_bound : forall msg st s, linv msg st -> label_step msg st = Ok s ->
  match s with LEnd _ => True | LLabel _ _ st' | LJump st' => linv msg st' /\ lmeasure st' < lmeasure st end).
Check (C01_never_out_of_bounds : forall (msgs : list (list byte)) (cs : list item),
  Forall (fun o => o <> UB) (run_script (world_init msgs) cs)).
Check (C01_cursor_total : forall msg c n, cwf msg c ->
  defined (c_u8 msg c) /\ defined (c_slice msg c n) /\ defined (c_skip c n) /\ defined (c_window c n) /\
  defined (c_close_window c) /\ (0 < n -> defined (c_be msg c n))).
Check (C01_rdata_total : forall msg ty rd m c, read_rdata msg ty rd = Some m -> cwf msg c ->
  cwf msg (fst (m c)) /\ defined (snd (m c))).
Check (C01_borrowed_names_total : forall msg c1 c2, cwf msg c1 -> cwf msg c2 ->
  defined (nameref_eq msg c1 c2) /\ defined (labels_drain msg c1)).
Print Assumptions C01_rdata_total. Print Assumptions C01_borrowed_names_total.
Print Assumptions C01_name_walk_total. Print Assumptions C01_name_walk_bound.
Print Assumptions C01_never_out_of_bounds. Print Assumptions C01_cursor_total.
