From Coq Require Import ZArith Lia.
From RsdnsModel Require Import Base GenHeader Cursor Names Labels Header Tracker RData Reader RecordSet.
From RsdnsModel.Spec Require Import LinearPass.
From RsdnsModel.Proofs Require Import Gates ReaderRefine FromMsgRefine MessageRT EndToEnd.
From RsdnsModel.Properties Require Import C07.
Open Scope N_scope.
Check (C07_gates_sound : forall msg ty rs,
  from_msg msg ty = Ok rs ->
  lenN msg <= 65535 /\
  exists hd, snd (read_header msg (c_new msg)) = Ok hd /\
    flag_qr (h_flags hd) = true /\ flag_tc (h_flags hd) = false /\ h_qd hd = 1 /\
    flag_rcode (h_flags hd) = 0).
Check (C07_gate_errors : forall msg ty hd c1,
  lenN msg <= 65535 -> read_header msg (c_new msg) = (c1, Ok hd) ->
  (flag_qr (h_flags hd) = false -> from_msg msg ty = Err (BadMessageType false)) /\
  (flag_qr (h_flags hd) = true -> flag_tc (h_flags hd) = true -> from_msg msg ty = Err MessageTruncated) /\
  (flag_qr (h_flags hd) = true -> flag_tc (h_flags hd) = false -> h_qd hd <> 1 ->
   from_msg msg ty = Err (BadQuestionsCount (h_qd hd)))).
Check (C07_extended_rcode : forall base ext, base < 16 -> ext < 256 ->
  rcode_extended base ext = base + 16 * ext).
Check (C07_rcode_gate : forall msg nq an ns ar qs rs e1 e2,
  parsed msg nq an ns ar qs rs e1 e2 -> lenN qs = nq -> lenN rs = an + ns + ar ->
  forall h, read_header msg (c_new msg) = (c_set_pos (c_new msg) 12, Ok h) ->
  h_qd h = nq /\ h_an h = an /\ h_ns h = ns /\ h_ar h = ar ->
  forall ty q, nq = 1 -> getN qs 0 = Some q -> flag_qr (h_flags h) = true -> flag_tc (h_flags h) = false ->
  (the_rcode an ns ar rs h <> 0 -> from_msg msg ty = Err (BadResponseCode (the_rcode an ns ar rs h))) /\
  (forall s, from_msg msg ty = Ok s -> the_rcode an ns ar rs h = 0)).
Check (C07_rcode_gate_end_to_end : forall msg q rs an ns ar e1 e2 h ty,
  lenN msg <= 65535 -> 12 <= lenN msg -> questions_stand msg 12 [q] e1 -> records_stand msg e1 rs e2 ->
  lenN rs = an + ns + ar -> an <= 65535 -> ns <= 65535 -> ar <= 65535 ->
  read_header msg (c_new msg) = (c_set_pos (c_new msg) 12, Ok h) ->
  h_qd h = 1 /\ h_an h = an /\ h_ns h = ns /\ h_ar h = ar ->
  flag_qr (h_flags h) = true -> flag_tc (h_flags h) = false ->
  sem_rcode rs an h <> 0 -> from_msg msg ty = Err (BadResponseCode (sem_rcode rs an h))).
Check (C07_rcode_gate_example : from_msg example_opt_msg T_A = Err (BadResponseCode 16)).
Print Assumptions C07_gates_sound. Print Assumptions C07_gate_errors. Print Assumptions C07_extended_rcode. Print Assumptions C07_rcode_gate. Print Assumptions C07_rcode_gate_end_to_end. Print Assumptions C07_rcode_gate_example.
