From RsdnsModel Require Import Base Cursor Names Labels Header Tracker RData Reader Script Alloc.
From RsdnsModel.Proofs Require Import AllocFree.
From RsdnsModel.Properties Require Import C20.
Open Scope N_scope.
Check (C20_typed_reads_fixed_size_partial : forall msg ty mk r,
  (ty =? T_A) || (ty =? T_AAAA) = true ->
  match snd (rd_data msg ty mk r) with Ok v => fixed_obs v = true | _ => True end /\
  match rd_data_at msg ty mk r with Ok v => fixed_obs v = true | _ => True end).
Print Assumptions C20_typed_reads_fixed_size_partial.
