From RsdnsModel Require Import Base Cursor Names Labels Header Tracker RData Reader Client Timed.
From RsdnsModel.Spec Require Import NameText WireName.
From RsdnsModel.Proofs Require Import NameOrder ClientProofs MessageRT AcceptComplete TimedProofs TimedGeneral.
From RsdnsModel.Properties Require Import C12.
Open Scope N_scope.
Check (C12_accept_sound : forall std id qname qtype qclass d fl,
  accept_datagram std id qname qtype qclass d = Ok (Some fl) ->
  lenN d <= 65535 /\
  exists r1 hd n, rd_header d (mkReader (c_new d) tr_default false) = (r1, Ok (OHeader hd)) /\
    h_id hd = id /\ fl = h_flags hd /\ questions_left (r_tr r1) = Ok 1 /\
    snd (rd_question d true false r1) = Ok (OQuestion n qtype qclass) /\ name_eq_str n qname = true).
Check (C12_rejects_silently : forall std id qname qtype qclass d,
  match accept_datagram std id qname qtype qclass d with Err _ => False | _ => True end).
Check (C12_filter_total : forall std id qname qtype qclass d,
  exists o, accept_datagram std id qname qtype qclass d = Ok o).
Check (C12_first_match : forall std id qname qtype qclass ds d fl,
  udp_receive std id qname qtype qclass ds = Ok (Some (d, fl)) ->
  exists pre post, ds = pre ++ d :: post /\
    accept_datagram std id qname qtype qclass d = Ok (Some fl) /\
    Forall (fun x => accept_datagram std id qname qtype qclass x = Ok None) pre).
Check (C12_nothing_accepted : forall std id qname qtype qclass ds,
  udp_receive std id qname qtype qclass ds = Ok None ->
  Forall (fun x => accept_datagram std id qname qtype qclass x = Ok None) ds).
Check (C12_accepted_question_is_asked : forall std id qname qtype qclass d fl,
  accept_datagram std id qname qtype qclass d = Ok (Some fl) ->
  exists r1 hd r2 n, rd_header d (mkReader (c_new d) tr_default false) = (r1, Ok (OHeader hd)) /\
    rd_question d true false r1 = (r2, Ok (OQuestion n qtype qclass)) /\
    valid_text n = true /\ fold_case n = fold_case (canon_text qname)).
Check (C12_genuine_response_accepted : forall std d q e h id qname,
  lenN d <= 65535 -> 12 <= lenN d ->
  read_header d (c_new d) = (c_set_pos (c_new d) 12, Ok h) ->
  h_qd h = 1 -> h_an h <= 65535 -> h_ns h <= 65535 -> h_ar h <= 65535 -> h_id h = id ->
  question_stands d 12 q e ->
  name_eq_str (join_labels (map snd (sq_labels q))) qname = true ->
  accept_datagram std id qname (sq_type q) (sq_class q) d = Ok (Some (h_flags h))).
Check (C12_filter_example : accept_datagram true 4660 [x61] 1 1 example_msg = Ok (Some 33152) /\
  accept_datagram false 4660 [x41; x2e] 1 1 example_msg = Ok (Some 33152) /\
  accept_datagram true 4661 [x61] 1 1 example_msg = Ok None /\
  accept_datagram true 4660 [x62] 1 1 example_msg = Ok None /\
  accept_datagram true 4660 [x61] 28 1 example_msg = Ok None /\
  accept_datagram false 4660 [x61] 1 3 example_msg = Ok None).
Check (C12_first_match_over_time : forall std smol q lifetime qt jit proc queue s d fl t rest,
  exchange_of std smol q lifetime qt jit proc queue = (s, Ok (d, fl), t, rest) ->
  exists pre ta, queue = pre ++ (ta, d) :: rest /\ Forall (rejected_by std q) pre /\ filter_of std q d = Ok (Some fl)).
Print Assumptions C12_accept_sound. Print Assumptions C12_rejects_silently. Print Assumptions C12_filter_total. Print Assumptions C12_first_match. Print Assumptions C12_nothing_accepted. Print Assumptions C12_accepted_question_is_asked. Print Assumptions C12_genuine_response_accepted. Print Assumptions C12_filter_example. Print Assumptions C12_first_match_over_time.
