From RsdnsModel Require Import Base Cursor Names Labels Header Tracker RData Reader Client.
From RsdnsModel.Spec Require Import NameText.
From RsdnsModel.Proofs Require Import NameOrder ClientProofs.
From RsdnsModel.Properties Require Import C12.
Open Scope N_scope.
Check (C12_accept_sound : forall std id qname qtype qclass d fl,
  accept_datagram std id qname qtype qclass d = Ok (Some fl) ->
  lenN d <= 65535 /\
  exists r1 hd n, rd_header d (mkReader (c_new d) tr_default false) = (r1, Ok (OHeader hd)) /\
    h_id hd = id /\ fl = h_flags hd /\ questions_left (r_tr r1) = Ok 1 /\
    snd (rd_question d true false r1) = Ok (OQuestion n qtype qclass) /\ name_eq_str n qname = true).
Check (C12_rejects_silently : forall std id qname qtype qclass d,
  match accept_datagram std id qname qtype qclass d with Err _ => False | _ => True end).
Check (C12_first_match : forall std id qname qtype qclass ds d fl,
  udp_receive std id qname qtype qclass ds = Ok (Some (d, fl)) ->
  exists pre post, ds = pre ++ d :: post /\
    accept_datagram std id qname qtype qclass d = Ok (Some fl) /\
    Forall (fun x => accept_datagram std id qname qtype qclass x = Ok None) pre).
Check (C12_nothing_accepted : forall std id qname qtype qclass ds,
  udp_receive std id qname qtype qclass ds = Ok None ->
  Forall (fun x => accept_datagram std id qname qtype qclass x = Ok None) ds).
Check (C12_accepted_question_is_asked : forall std id qname qtype qclass d fl,
  accept_datagram std id qname qtype qclass d = Ok (Some fl) ->
  exists r1 hd r2 n, rd_header d (mkReader (c_new d) tr_default false) = (r1, Ok (OHeader hd)) /\
    rd_question d true false r1 = (r2, Ok (OQuestion n qtype qclass)) /\
    valid_text n = true /\ fold_case n = fold_case (canon_text qname)).
Print Assumptions C12_accept_sound. Print Assumptions C12_rejects_silently. Print Assumptions C12_first_match. Print Assumptions C12_nothing_accepted. Print Assumptions C12_accepted_question_is_asked.
