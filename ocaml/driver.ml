(* driver.ml — runs the extracted Coq model on the same case lines as the Rust harness and prints
   the same canonical result lines.  Glue only: hex <-> byte list, int <-> N, printing. *)
open Model

let rec pos_of_int (i : int) : positive =
  if i = 1 then XH else if i land 1 = 1 then XI (pos_of_int (i lsr 1)) else XO (pos_of_int (i lsr 1))
let n_of_int (i : int) : n = if i = 0 then N0 else Npos (pos_of_int i)
let rec int_of_pos (p : positive) : int =
  match p with XH -> 1 | XO q -> 2 * int_of_pos q | XI q -> 2 * int_of_pos q + 1
let int_of_n (x : n) : int = match x with N0 -> 0 | Npos p -> int_of_pos p

let byte_tab : byte array =
  Array.init 256 (fun i -> match of_N (n_of_int i) with Some b -> b | None -> failwith "byte")
let int_of_byte (b : byte) : int = int_of_n (to_N b)

let () =
  (* glue self-test: round trips *)
  for i = 0 to 65535 do assert (int_of_n (n_of_int i) = i) done;
  for i = 0 to 255 do assert (int_of_byte byte_tab.(i) = i) done

let unhex (s : string) : byte list =
  if s = "-" then [] else begin
    let n = String.length s / 2 in
    let rec go i acc = if i < 0 then acc else
        go (i - 1) (byte_tab.(int_of_string ("0x" ^ String.sub s (2 * i) 2)) :: acc) in
    go (n - 1) []
  end
let hex (l : byte list) : string =
  if l = [] then "-" else String.concat "" (List.map (fun b -> Printf.sprintf "%02x" (int_of_byte b)) l)

let ni = int_of_n
let perr (e : error) : string =
  match e with
  | EndOfBuffer -> "EndOfBuffer" | EndOfWindow -> "EndOfWindow"
  | CursorAlreadyInWindow -> "CursorAlreadyInWindow" | CursorNotInWindow -> "CursorNotInWindow"
  | CursorWindowError (a, b) -> Printf.sprintf "CursorWindowError(%d,%d)" (ni a) (ni b)
  | DomainNameLabelIsEmpty -> "DomainNameLabelIsEmpty"
  | DomainNameLabelTooLong a -> Printf.sprintf "DomainNameLabelTooLong(%d)" (ni a)
  | DomainNameLabelInvalidChar (k, b) -> Printf.sprintf "DomainNameLabelInvalidChar(%d,%d)" (ni k) (ni b)
  | DomainNameTooLong a -> Printf.sprintf "DomainNameTooLong(%d)" (ni a)
  | DomainNameBadPointer (a, b) -> Printf.sprintf "DomainNameBadPointer(%d,%d)" (ni a) (ni b)
  | DomainNameTooMuchPointers -> "DomainNameTooMuchPointers"
  | DomainNameBadLabelType a -> Printf.sprintf "DomainNameBadLabelType(%d)" (ni a)
  | MessageTooLong a -> Printf.sprintf "MessageTooLong(%d)" (ni a)
  | ReaderDone -> "ReaderDone"
  | RecordsSectionOffsetUnknown a -> Printf.sprintf "RecordsSectionOffsetUnknown(%d)" (ni a)
  | BadQuestionsCount a -> Printf.sprintf "BadQuestionsCount(%d)" (ni a)
  | BadMessageType b -> Printf.sprintf "BadMessageType(%b)" b
  | MessageTruncated -> "MessageTruncated"
  | BadResponseCode a -> Printf.sprintf "BadResponseCode(%d)" (ni a)
  | NoAnswer -> "NoAnswer"
  | UnexpectedType a -> Printf.sprintf "UnexpectedType(%d)" (ni a)
  | BufferTooShort a -> Printf.sprintf "BufferTooShort(%d)" (ni a)
  | UnsupportedClass a -> Printf.sprintf "UnsupportedClass(%d)" (ni a)
  | BadParam -> "BadParam" | Timeout -> "Timeout"
  | IoError a -> Printf.sprintf "IoError(%d)" (ni a)

(* abnormal outcomes print the way the harness supervisor reports the real thing *)
let pres (r : 'a res) (f : 'a -> string) : string =
  match r with
  | Ok a -> "ok:" ^ f a
  | Err e -> "err:" ^ perr e
  | UB -> "UB" | Panic -> "PANIC" | DebugAssert -> "DEBUGASSERT" | OutOfFuel -> "OUTOFFUEL"

exception Abnormal of string
let abn (r : 'a res) : unit =
  match r with
  | UB -> raise (Abnormal "UB") | Panic -> raise (Abnormal "PANIC(overflow)")
  | DebugAssert -> raise (Abnormal "PANIC(debug_assert)") | OutOfFuel -> raise (Abnormal "OUTOFFUEL")
  | _ -> ()

let op_name (msg : byte list) (p : int) : string =
  let c = c_with_pos msg (n_of_int p) in
  let rd nk = let r = read_name msg nk c in abn r;
    pres r (fun (t, c') -> hex t ^ ":" ^ string_of_int (ni c'.pos)) in
  let rh = rd Heap in
  let ri = rd Inline in
  let skr = skip_name msg c in abn skr;
  let sk = pres skr (fun c' -> string_of_int (ni c'.pos)) in
  let lbr = labels_drain msg c in abn lbr;
  let lb = match lbr with
    | Ok (ls, e) ->
      "[" ^ String.concat "" (List.map (fun (p, b) -> string_of_int (ni p) ^ ":" ^ hex b ^ ",") ls) ^ "]"
      ^ (match e with None -> "none" | Some e -> "err:" ^ perr e)
    | _ -> "?" in
  let th = match read_name msg Heap c with Ok (t, _) -> "ok:" ^ hex t | r -> pres r (fun _ -> "") in
  let ti = match read_name msg Inline c with Ok (t, _) -> "ok:" ^ hex t | r -> pres r (fun _ -> "") in
  Printf.sprintf "RH=%s RI=%s SK=%s LB=%s TH=%s TI=%s" rh ri sk lb th ti


(* ---- script op (coq/theories/Script.v) ---- *)
let nstr (x : n) : string =
  (* decimal printing of arbitrarily large N (u128 addresses) *)
  let rec digits (x : n) (acc : string) : string =
    match x with
    | N0 -> if acc = "" then "0" else acc
    | _ ->
      let q = N.div x (n_of_int 10) and r = N.modulo x (n_of_int 10) in
      digits q (string_of_int (int_of_n r) ^ acc) in
  digits x ""

let pmarker (m : marker) : string =
  Printf.sprintf "M(%d,%d,%d,%d,%s,%d,%d)" (ni m.m_off) (ni m.m_type_off) (ni m.m_rtype) (ni m.m_rclass)
    (nstr m.m_ttl) (ni m.m_rdlen) (ni m.m_section)

let prdata (d : rdata) : string =
  match d with
  | RD_A a -> "D(A," ^ nstr a ^ ")"
  | RD_Aaaa a -> "D(Aaaa," ^ nstr a ^ ")"
  | RD_Name (ty, nm) -> Printf.sprintf "D(Name,%d,%s)" (ni ty) (hex nm)
  | RD_Hinfo (a, b) -> Printf.sprintf "D(Hinfo,%s,%s)" (hex a) (hex b)
  | RD_Wks (a, p, bm) -> Printf.sprintf "D(Wks,%s,%d,%s)" (nstr a) (ni p) (hex bm)
  | RD_Minfo (a, b) -> Printf.sprintf "D(Minfo,%s,%s)" (hex a) (hex b)
  | RD_Mx (p, e) -> Printf.sprintf "D(Mx,%d,%s)" (ni p) (hex e)
  | RD_Null b -> "D(Null," ^ hex b ^ ")"
  | RD_Soa (m, r, a, b, c, d, e) ->
    Printf.sprintf "D(Soa,%s,%s,%s,%s,%s,%s,%s)" (hex m) (hex r) (nstr a) (nstr b) (nstr c) (nstr d) (nstr e)
  | RD_Txt t -> "D(Txt," ^ hex t ^ ")"

let pobs (o : obs) : string =
  match o with
  | OUnit -> ""
  | ONum x -> nstr x
  | OHeader h ->
    let f = h.h_flags in let b x = if x then 1 else 0 in
    Printf.sprintf "H(%d,%d,%d,%d,%d,%d|%d,%d,%d,%d,%d,%d,%d)" (ni h.h_id) (ni h.h_flags) (ni h.h_qd) (ni h.h_an) (ni h.h_ns) (ni h.h_ar)
      (b (flag_qr f)) (ni (flag_opcode f)) (b (flag_aa f)) (b (flag_tc f)) (b (flag_rd f)) (b (flag_ra f)) (ni (flag_rcode f))
  | OQuestion (nm, qt, qc) -> Printf.sprintf "Q(%s,%d,%d)" (hex nm) (ni qt) (ni qc)
  | OMarker m -> pmarker m
  | OHeaderN (nm, m) -> Printf.sprintf "HN(%s,%s)" (hex nm) (pmarker m)
  | OBytes (off, bs) -> Printf.sprintf "B(%d,%s)" (ni off) (hex bs)
  | ORData d -> prdata d
  | OOpt o -> Printf.sprintf "O(%d,%d,%d,%d)" (ni o.opt_payload) (ni o.opt_ext) (ni o.opt_ver)
                (if opt_dnssec_ok o.opt_fl then 1 else 0)
  | OQuestionRef _ | OHeaderRef _ | ONameRef _ -> "?ref"

let plabels ls = "[" ^ String.concat "" (List.map (fun (p, b) -> string_of_int (ni p) ^ ":" ^ hex b ^ ",") ls) ^ "]"

let psobs (s : sobs) : string =
  let ok x = if x = "" then "ok" else "ok:" ^ x in
  match s with
  | SObs o -> ok (pobs o)
  | SNref (idx, OQuestion (_, qt, qc)) -> Printf.sprintf "ok:QR(#%d,%d,%d)" (ni idx) (ni qt) (ni qc)
  | SNref (idx, OMarker m) -> Printf.sprintf "ok:HR(#%d,%s)" (ni idx) (pmarker m)
  | SNref (idx, _) -> Printf.sprintf "ok:NR(#%d)" (ni idx)
  | SBool b -> Printf.sprintf "ok:%b" b
  | SName t -> "ok:N(" ^ hex t ^ ")"
  | SLabels (ls, e) -> "ok:L(" ^ plabels ls ^ "," ^ (match e with None -> "none" | Some e -> "err:" ^ perr e) ^ ")"
  | SNoSuch -> "nosuch"
  | SSkipped -> "skip"

let pres_sobs (r : sobs res) : string =
  match r with
  | Ok s -> psobs s
  | Err e -> "err:" ^ perr e
  | UB -> "UB" | Panic -> "PANIC(overflow)" | DebugAssert -> "PANIC(debug_assert)" | OutOfFuel -> "OUTOFFUEL"

let parse_call (c : string) : (n * bool) * call =
  match String.split_on_char '.' c with
  | [ri; rest] ->
    let cond = String.length rest > 0 && rest.[0] = '?' in
    let rest = if cond then String.sub rest 1 (String.length rest - 1) else rest in
    let p = Array.of_list (String.split_on_char ':' rest) in
    let num i = if p.(i) = "L" then n_of_int 99999 else n_of_int (int_of_string p.(i)) in
    let nk s = if s = "H" then Heap else Inline in
    ((n_of_int (int_of_string ri), cond),
     match p.(0) with
     | "header" -> CHeader | "seek" -> CSeek (num 1) | "qcount" -> CQCount | "rcount" -> CRCount
     | "rcountin" -> CRCountIn (num 1) | "q" -> CQuestion | "qref" -> CQuestionRef | "theq" -> CTheQuestion
     | "theqref" -> CTheQuestionRef | "skipq" -> CSkipQuestions | "marker" -> CMarker | "href" -> CHeaderRef
     | "hdrH" -> CHeaderN Heap | "hdrI" -> CHeaderN Inline
     | "skipd" -> CSkipData (num 1) | "bytes" -> CDataBytes (num 1) | "data" -> CData (num 1, num 2)
     | "opt" -> COpt (num 1) | "optorskip" -> COptOrSkip (num 1) | "bytesat" -> CBytesAt (num 1) | "dataat" -> CDataAt (num 1, num 2)
     | "nrefat" -> CNameRefAt (num 1) | "nreq" -> CNrefEq (num 1, num 2) | "nrname" -> CNrefName (nk p.(1), num 2)
     | "nrlabels" -> CNrefLabels (num 1)
     | x -> failwith ("bad call " ^ x))
  | _ -> failwith ("bad call " ^ c)

let script_results (a : string array) =
  let n = int_of_string a.(0) in
  let msgs = List.init n (fun i -> unhex a.(1 + i)) in
  let calls = if Array.length a > 1 + n then a.(1 + n) else "" in
  let cs = List.filter (fun s -> s <> "") (String.split_on_char ',' calls) in
  let parsed = List.map parse_call cs in
  (msgs, parsed, run_script (world_init msgs) parsed)

let op_script (a : string array) : string =
  let (_, _, rs) = script_results a in
  String.concat ";" (List.map pres_sobs rs)

(* abstract linear-pass reader (Spec/LinearPass.v) run next to the model, single-reader scripts *)
let paout (o : aout) : string =
  match o with
  | AItem (it, sec) -> Printf.sprintf "item(%d,%d,%d,%d,%s,%d,%d)" (ni it.a_start) (ni it.a_type_off) (ni it.a_type) (ni it.a_class)
                         (nstr it.a_ttl) (ni it.a_rdlen) (ni sec)
  | AOk -> "ok" | ANum x -> "num(" ^ nstr x ^ ")" | AErrDone -> "done"
  | AErrOffsetUnknown s -> Printf.sprintf "unknown(%d)" (ni s) | AErrBadQuestions k -> Printf.sprintf "badq(%d)" (ni k)
  | AErrAny -> "err" | AUnspecified -> "unspec"

let spec_script (a : string array) : string option =
  if a.(0) <> "1" then None else
  let (msgs, parsed, rs) = script_results a in
  match linear_of (List.hd msgs) with
  | None -> Some "nolinear"
  | Some l ->
    let rec go st calls results seen_header acc =
      match calls, results with
      | ((_, cond), cl) :: cs, r :: rr ->
        let skipped = (match r with Ok SSkipped -> true | _ -> false) in
        if skipped then go st cs rr seen_header ("-" :: acc) else
        let ac = (match cl with
            | CHeader -> None
            | CSeek s -> Some (ASeek s) | CQCount -> Some AQCount | CRCount -> Some ARCount | CRCountIn s -> Some (ARCountIn s)
            | CQuestion -> Some (AQuestion (true, false)) | CQuestionRef -> Some (AQuestion (false, false))
            | CTheQuestion -> Some (AQuestion (true, true)) | CTheQuestionRef -> Some (AQuestion (false, true))
            | CSkipQuestions -> Some ASkipQuestions
            | CMarker | CHeaderRef -> Some (AG1 false) | CHeaderN _ -> Some (AG1 true)
            | CSkipData _ | CDataBytes _ | COptOrSkip _ | COpt _ -> Some AG2
            | CData (_, _) -> Some (AG2typed (match r with Ok _ -> true | _ -> false))
            | _ -> None) in
        (match cl, ac with
         | CHeader, _ ->
           if seen_header then List.rev ("unspec" :: acc) else go st cs rr true ("hdr" :: acc)
         | _, None -> go st cs rr seen_header ("-" :: acc)     (* random access / borrowed-name ops: not part of the pass *)
         | _, Some c ->
           if not seen_header then List.rev ("unspec" :: acc) else
           let (st', o) = astep l st c in
           (match o with
            | AUnspecified -> List.rev ("unspec" :: acc)
            | _ -> go st' cs rr seen_header (paout o :: acc)))
      | _, _ -> List.rev acc in
    Some (String.concat ";" (go a_init parsed rs false []))

let op_iter (msg : byte list) : string =
  match iter_new msg with
  | Err e -> "new=err:" ^ perr e
  | UB -> "UB" | Panic -> "PANIC(overflow)" | DebugAssert -> "PANIC(debug_assert)" | OutOfFuel -> "OUTOFFUEL"
  | Ok (h, aoff) ->
    let hs = pobs (OHeader h) in
    let (qs, qe) = iter_questions msg h in
    let first = (match qs, qe with
        | q :: _, _ -> "ok:" ^ pobs q
        | [], Some r -> pres r (fun _ -> "")
        | [], None -> "err:BadQuestionsCount(0)") in
    let qend = (match qe with None -> "end" | Some r -> (abn r; pres r (fun _ -> ""))) in
    let rsr = iter_records msg h aoff in abn rsr;
    let (items, rend) = (match rsr with Ok (l, e) -> (l, e) | _ -> ([], None)) in
    Printf.sprintf "new=ok:%s Q=%s QS=[%s]%s RS=[%s]%s" hs first
      (String.concat "" (List.map (fun q -> pobs q ^ ",") qs)) qend
      (String.concat "" (List.map (fun r -> Printf.sprintf "R(%d,%s,%d,%d,%s,%s)," (ni r.rr_section) (hex r.rr_name)
                                     (ni r.rr_class) (ni r.rr_type) (nstr r.rr_ttl) (prdata r.rr_data)) items))
      (match rend with None -> "end" | Some e -> "err:" ^ perr e)

let op_rrset (ty : int) (msg : byte list) : string =
  let r = from_msg msg (n_of_int ty) in abn r;
  pres r (fun rs -> Printf.sprintf "RS(%s,%d,%s,[%s])" (hex rs.rs_name) (ni rs.rs_class) (nstr rs.rs_ttl)
             (String.concat "," (List.map prdata rs.rs_data)))

(* ---- name text ops ---- *)
let valid_utf8 (l : byte list) : bool =
  let a = Array.of_list (List.map int_of_byte l) in
  let n = Array.length a in
  let rec go i =
    if i >= n then true else
    let b = a.(i) in
    let cont k = i + k < n + 0 && (let ok = ref true in for j = 1 to k do if i + j >= n || a.(i + j) land 0xC0 <> 0x80 then ok := false done; !ok) in
    if b < 0x80 then go (i + 1)
    else if b >= 0xC2 && b <= 0xDF then (cont 1 && go (i + 2))
    else if b >= 0xE0 && b <= 0xEF then
      (cont 2 && (b <> 0xE0 || a.(i + 1) >= 0xA0) && (b <> 0xED || a.(i + 1) <= 0x9F) && go (i + 3))
    else if b >= 0xF0 && b <= 0xF4 then
      (cont 3 && (b <> 0xF0 || a.(i + 1) >= 0x90) && (b <> 0xF4 || a.(i + 1) <= 0x8F) && go (i + 4))
    else false in
  go 0

let ptext r = (abn r; pres r hex)
let op_text (s : byte list) : string =
  if not (valid_utf8 s) then "nonutf8" else
  let h = ptext (name_from_str Heap s) and i = ptext (name_from_str Inline s) in
  Printf.sprintf "H=%s I=%s TH=%s TI=%s" h i h i

let pcmp (c : comparison) = match c with Lt -> "Lt" | Eq -> "Eq" | Gt -> "Gt"
let pfeed (l : n list) = if l = [] then "-" else String.concat "" (List.map (fun x -> Printf.sprintf "%02x" (ni x)) l)

let op_textpair (a : byte list) (b : byte list) : string =
  if not (valid_utf8 a && valid_utf8 b) then "nonutf8" else
  let ha = name_from_str Heap a and ia = name_from_str Inline a in
  let hb = name_from_str Heap b and ib = name_from_str Inline b in
  List.iter abn [ha; ia; hb; ib];
  let eqs = (match ha, ia with
      | Ok ta, Ok ti -> Printf.sprintf "EQS=%b,%b" (name_eq_str ta b) (name_eq_str ti b)
      | _ -> "EQS=-") in
  let rest = (match ha, ia, hb, ib with
      | Ok ta, Ok tia, Ok tb, Ok tib ->
        let shp t = let n = List.length (name_hash_feed t) in if n = 0 then "-" else Printf.sprintf "b%d" n in
        Printf.sprintf "EQ=%b,%b,%b,%b CMP=%s,%s,%s,%s HF=%s,%s,%s,%s HS=%s,%s,%s,%s CONV=%s,%s,%s,%s"
          (name_eq ta tb) (name_eq tia tib) (name_eq tia tb) (name_eq tia tb)
          (pcmp (name_cmp ta tb)) (pcmp (name_cmp tia tib)) (pcmp (name_cmp ta tb)) (pcmp (name_cmp tia tib))
          (pfeed (name_hash_feed ta)) (pfeed (name_hash_feed tia)) (pfeed (name_hash_feed tb)) (pfeed (name_hash_feed tib))
          (shp ta) (shp tia) (shp tb) (shp tib)
          (hex ta) (hex tia) (hex tia) (hex ta)
      | _ -> "PAIR=-") in
  eqs ^ " " ^ rest

let rec rep (x : 'a) (k : int) : 'a list = if k <= 0 then [] else x :: rep x (k - 1)
let rec take k l = if k <= 0 then [] else match l with [] -> [] | x :: t -> x :: take (k - 1) t
let rec drop k l = if k <= 0 then l else match l with [] -> [] | _ :: t -> drop (k - 1) t

let op_wname (name : byte list) (cap : int) : string =
  let w = { wbuf = rep byte_tab.(0xAA) cap; wpos = N0 } in
  let r = write_name w name in abn r;
  match r with
  | Ok (w', len) ->
    let n = ni len in
    let wire = take n w'.wbuf in
    let rt = (let rr = read_name wire Inline (c_with_pos wire N0) in abn rr;
              pres rr (fun (t, c') -> hex t ^ ":" ^ string_of_int (ni c'.pos))) in
    let untouched = List.for_all (fun b -> int_of_byte b = 0xAA) (drop n w'.wbuf) in
    Printf.sprintf "ok:%d:%s RT=%s REST=%b" n (hex wire) rt untouched
  | r -> pres r (fun _ -> "")

let op_query (a : string array) : string =
  let cap = int_of_string a.(0) in
  let name = unhex a.(1) in
  if not (valid_utf8 name) then "nonutf8" else
  let opt = if a.(5) = "-" then None else
      (match String.split_on_char ':' a.(5) with
       | [v; p] -> Some (n_of_int (int_of_string v), n_of_int (int_of_string p)) | _ -> None) in
  let r = query_write (rep byte_tab.(0) cap) N0 name (n_of_int (int_of_string a.(2))) (n_of_int (int_of_string a.(3)))
      (a.(4) = "1") opt in
  abn r;
  pres r (fun (b, n) -> Printf.sprintf "%d:%s" (ni n) (hex (take (ni n) b)))

(* one whole raw query of the client model (Client.v) over scripted deliveries *)
let op_xq (a : string array) : string =
  let std = (a.(0) = "std") in
  let strategy = n_of_int (match a.(1) with "tcp" -> 1 | "notcp" -> 2 | _ -> 0) in
  let id = n_of_int (int_of_string a.(2)) in
  let qname = unhex a.(3) in
  let qt = n_of_int (int_of_string a.(4)) and qc = n_of_int (int_of_string a.(5)) in
  let buf = n_of_int (int_of_string a.(6)) in
  let parts s = if s = "-" then [] else List.map unhex (String.split_on_char '/' s) in
  let (ev, r) = client_query std strategy id qname qt qc buf (parts a.(7)) (parts a.(8)) in
  abn r;
  let evs = String.concat "" (List.map (fun e -> match e with EvUdpExchange -> "U" | EvTcpExchange -> "T") ev) in
  let rs = match r with
    | Err (IoError x) -> "err:IoError(" ^ (match ni x with 1 -> "UnexpectedEof" | 2 -> "TimedOut" | k -> string_of_int k) ^ ")"
    | _ -> pres r (fun b -> Printf.sprintf "%d:%s" (List.length b) (hex b)) in
  evs ^ " " ^ rs

(* the clients over time (Timed.v): one raw query / a history of UDP exchanges on one socket queue.
   arrivals: "t:hex,t:hex" or "-"; TCP peer: accept delay or "-", segments "t:hex,..." or "-", eof instant or "-" *)
let parse_arrivals (s : string) : (n * byte list) list =
  if s = "-" then [] else
  List.map (fun it -> match String.split_on_char ':' it with
      | [t; h] -> (n_of_int (int_of_string t), (if h = "" then [] else unhex h))
      | _ -> failwith "arrival") (String.split_on_char ',' s)
let res_line (r : (byte list) res) : string =
  match r with
  | Err (IoError x) -> "err:IoError(" ^ (match ni x with 1 -> "UnexpectedEof" | 2 -> "TimedOut" | k -> string_of_int k) ^ ")"
  | _ -> pres r (fun b -> Printf.sprintf "%d:%s" (List.length b) (hex b))
let tquery_of (a : string array) (i : int) (start : int) : tquery =
  { tq_id = n_of_int (int_of_string a.(i)); tq_name = unhex a.(i+1); tq_type = n_of_int (int_of_string a.(i+2));
    tq_class = n_of_int (int_of_string a.(i+3)); tq_start = n_of_int start }
let zero_jit = (fun _ -> N0)
let op_tq (a : string array) : string =
  let std = (a.(0) = "std") and smol = (a.(0) = "smol") in
  let strategy = n_of_int (match a.(1) with "tcp" -> 1 | "notcp" -> 2 | _ -> 0) in
  let q = tquery_of a 2 (int_of_string a.(6)) in
  let lifetime = n_of_int (int_of_string a.(7)) in
  let qt = if a.(8) = "-" then None else Some (n_of_int (int_of_string a.(8))) in
  let buf = n_of_int (int_of_string a.(9)) in
  let arrs = parse_arrivals a.(10) in
  let bytes = List.concat (List.map (fun (t, seg) -> List.map (fun b -> (t, b)) seg) (parse_arrivals a.(12))) in
  let srv = { tp_accept = (if a.(11) = "-" then None else Some (n_of_int (int_of_string a.(11))));
              tp_bytes = bytes; tp_eof = (if a.(13) = "-" then None else Some (n_of_int (int_of_string a.(13)))) } in
  let (((sends, ev), r), t) = client_query_timed std smol q lifetime qt zero_jit zero_jit buf strategy arrs srv in
  abn r;
  Printf.sprintf "S=%s EV=%s T=%d R=%s" (String.concat "," (List.map (fun x -> string_of_int (ni x)) sends))
    (String.concat "" (List.map (fun e -> match e with EvUdpExchange -> "U" | EvTcpExchange -> "T") ev)) (ni t) (res_line r)
(* the whole API call over time (Timed.v: client_call_timed / client_rrset_timed):
   tc <client> <strategy> <id> <name> <qtype> <qclass> <start> <lifetime> <qt|-> <buf> <arrivals> <accept|-> <segments> <eof|-> <rd 0|1> <edns ver:payload|-> <kind raw|rrN> *)
let op_tc (a : string array) : string =
  let std = (a.(0) = "std") and smol = (a.(0) = "smol") in
  let strategy = n_of_int (match a.(1) with "tcp" -> 1 | "notcp" -> 2 | _ -> 0) in
  let q = tquery_of a 2 (int_of_string a.(6)) in
  let lifetime = n_of_int (int_of_string a.(7)) in
  let qt = if a.(8) = "-" then None else Some (n_of_int (int_of_string a.(8))) in
  let buf = n_of_int (int_of_string a.(9)) in
  let arrs = parse_arrivals a.(10) in
  let bytes = List.concat (List.map (fun (t, seg) -> List.map (fun b -> (t, b)) seg) (parse_arrivals a.(12))) in
  let srv = { tp_accept = (if a.(11) = "-" then None else Some (n_of_int (int_of_string a.(11))));
              tp_bytes = bytes; tp_eof = (if a.(13) = "-" then None else Some (n_of_int (int_of_string a.(13)))) } in
  let edns = if a.(15) = "-" then None else
      (match String.split_on_char ':' a.(15) with
       | [v; p] -> Some (n_of_int (int_of_string v), n_of_int (int_of_string p)) | _ -> None) in
  let cfg = { cc_rd = (a.(14) = "1"); cc_edns = edns; cc_lifetime = lifetime; cc_qt = qt; cc_strategy = strategy } in
  let wire_s (dgrams, tcp) =
    Printf.sprintf "S=%s W=%s TW=%s" (String.concat "," (List.map (fun (t, _) -> string_of_int (ni t)) dgrams))
      (match dgrams with [] -> "-" | (_, d) :: rest -> if List.for_all (fun (_, d') -> d' = d) rest then hex d else "DIFFER")
      (match tcp with None -> "-" | Some b -> hex b) in
  let evs ev = String.concat "" (List.map (fun e -> match e with EvUdpExchange -> "U" | EvTcpExchange -> "T") ev) in
  if a.(16) = "raw" then begin
    let (((wire, ev), r), t) = client_call_timed std smol q cfg zero_jit zero_jit buf arrs srv in
    abn r;
    Printf.sprintf "%s EV=%s T=%d R=%s" (wire_s wire) (evs ev) (ni t) (res_line r)
  end else begin
    let (((wire, ev), r), t) = client_rrset_timed std smol q cfg zero_jit zero_jit buf arrs srv in
    abn r;
    Printf.sprintf "%s EV=%s T=%d R=%s" (wire_s wire) (evs ev) (ni t) (pres r (fun _ -> "RS"))
  end
(* history: client lifetime qt queue then per query: id name type class start *)
let op_th (a : string array) : string =
  let std = (a.(0) = "std") and smol = (a.(0) = "smol") in
  let lifetime = n_of_int (int_of_string a.(1)) in
  let qt = if a.(2) = "-" then None else Some (n_of_int (int_of_string a.(2))) in
  let queue = parse_arrivals a.(3) in
  let rec qs i = if i + 4 < Array.length a then tquery_of a i (int_of_string a.(i+4)) :: qs (i + 5) else [] in
  let outs = udp_history std smol lifetime qt zero_jit zero_jit (qs 4) queue in
  String.concat " | " (List.map (fun ((sends, r), t) ->
      abn r;
      Printf.sprintf "S=%s T=%d R=%s" (String.concat "," (List.map (fun x -> string_of_int (ni x)) sends)) (ni t)
        (match r with Ok (d, _) -> "ok:" ^ hex d | Err Timeout -> "err:Timeout" | _ -> pres r (fun _ -> "?"))) outs)

(* spec side of the names stream: the code-blind RFC expansion (Spec/WireName.v) *)
let spec_name_line (msg : byte list) (p : int) : string =
  match spec_name msg (n_of_int p) with
  | SReject w -> Printf.sprintf "reject %d" (ni w)
  | SAccept (ls, r) ->
    let bs = List.map snd ls in
    let valid = List.for_all label_ok bs in
    Printf.sprintf "accept %d %d %d %s [%s]" (ni r) (if valid then 1 else 0) (ni (wire_len bs))
      (hex (join_labels bs))
      (String.concat "" (List.map (fun (p, b) -> string_of_int (ni p) ^ ":" ^ hex b ^ ",") ls))

let dispatch (op : string) (a : string array) : string =
  match op with
  | "name" -> op_name (unhex a.(0)) (int_of_string a.(1))
  | "script" | "ascript" -> op_script a
  | "aiter" | "net" -> "-"
  | "text" -> op_text (unhex a.(0))
  | "textpair" -> op_textpair (unhex a.(0)) (unhex a.(1))
  | "wname" -> op_wname (unhex a.(0)) (int_of_string a.(1))
  | "query" -> op_query a
  | "xq" -> op_xq a
  | "tq" -> op_tq a
  | "th" -> op_th a
  | "tc" -> op_tc a
  | "iter" -> op_iter (unhex a.(0))
  | "rrset" -> op_rrset (int_of_string a.(0)) (unhex a.(1))
  | _ -> "BADOP(" ^ op ^ ")"

let spec (op : string) (a : string array) : string option =
  match op with
  | "name" -> Some (spec_name_line (unhex a.(0)) (int_of_string a.(1)))
  | "script" -> spec_script a
  | "query" ->
    let s = unhex a.(1) in
    Some (Printf.sprintf "valid %d" (if valid_text s then 1 else 0))
  | "text" | "wname" ->
    let s = unhex a.(0) in
    Some (Printf.sprintf "valid %d %s %d" (if valid_text s then 1 else 0) (hex (canon_text s)) (ni (wire_len (text_labels s))))
  | _ -> None

let () =
  try
    while true do
      let line = String.trim (input_line stdin) in
      if line <> "" && line.[0] <> '#' then begin
        match String.split_on_char ' ' line with
        | id :: op :: rest ->
          let out = (try dispatch op (Array.of_list rest) with Abnormal s -> s) in
          print_string ("R " ^ id ^ " " ^ out ^ "\n");
          (match spec op (Array.of_list rest) with
           | Some sp -> print_string ("S " ^ id ^ " " ^ sp ^ "\n") | None -> ())
        | _ -> ()
      end
    done
  with End_of_file -> ()
