(* driver.ml — runs the extracted Coq model on the same case lines as the Rust harness and prints
   the same canonical result lines.  Glue only: hex <-> byte list, int <-> N, printing. *)
open Model

let rec pos_of_int (i : int) : positive =
  if i = 1 then XH else if i land 1 = 1 then XI (pos_of_int (i lsr 1)) else XO (pos_of_int (i lsr 1))
let n_of_int (i : int) : n = if i = 0 then N0 else Npos (pos_of_int i)
let rec int_of_pos (p : positive) : int =
  match p with XH -> 1 | XO q -> 2 * int_of_pos q | XI q -> 2 * int_of_pos q + 1
let int_of_n (x : n) : int = match x with N0 -> 0 | Npos p -> int_of_pos p

let byte_tab : byte array =
  Array.init 256 (fun i -> match of_N (n_of_int i) with Some b -> b | None -> failwith "byte")
let int_of_byte (b : byte) : int = int_of_n (to_N b)

let () =
  (* glue self-test: round trips *)
  for i = 0 to 65535 do assert (int_of_n (n_of_int i) = i) done;
  for i = 0 to 255 do assert (int_of_byte byte_tab.(i) = i) done

let unhex (s : string) : byte list =
  if s = "-" then [] else begin
    let n = String.length s / 2 in
    let rec go i acc = if i < 0 then acc else
        go (i - 1) (byte_tab.(int_of_string ("0x" ^ String.sub s (2 * i) 2)) :: acc) in
    go (n - 1) []
  end
let hex (l : byte list) : string =
  if l = [] then "-" else String.concat "" (List.map (fun b -> Printf.sprintf "%02x" (int_of_byte b)) l)

let ni = int_of_n
let perr (e : error) : string =
  match e with
  | EndOfBuffer -> "EndOfBuffer" | EndOfWindow -> "EndOfWindow"
  | CursorAlreadyInWindow -> "CursorAlreadyInWindow" | CursorNotInWindow -> "CursorNotInWindow"
  | CursorWindowError (a, b) -> Printf.sprintf "CursorWindowError(%d,%d)" (ni a) (ni b)
  | DomainNameLabelIsEmpty -> "DomainNameLabelIsEmpty"
  | DomainNameLabelTooLong a -> Printf.sprintf "DomainNameLabelTooLong(%d)" (ni a)
  | DomainNameLabelInvalidChar (k, b) -> Printf.sprintf "DomainNameLabelInvalidChar(%d,%d)" (ni k) (ni b)
  | DomainNameTooLong a -> Printf.sprintf "DomainNameTooLong(%d)" (ni a)
  | DomainNameBadPointer (a, b) -> Printf.sprintf "DomainNameBadPointer(%d,%d)" (ni a) (ni b)
  | DomainNameTooMuchPointers -> "DomainNameTooMuchPointers"
  | DomainNameBadLabelType a -> Printf.sprintf "DomainNameBadLabelType(%d)" (ni a)
  | MessageTooLong a -> Printf.sprintf "MessageTooLong(%d)" (ni a)
  | ReaderDone -> "ReaderDone"
  | RecordsSectionOffsetUnknown a -> Printf.sprintf "RecordsSectionOffsetUnknown(%d)" (ni a)
  | BadQuestionsCount a -> Printf.sprintf "BadQuestionsCount(%d)" (ni a)
  | BadMessageType b -> Printf.sprintf "BadMessageType(%b)" b
  | MessageTruncated -> "MessageTruncated"
  | BadResponseCode a -> Printf.sprintf "BadResponseCode(%d)" (ni a)
  | NoAnswer -> "NoAnswer"
  | UnexpectedType a -> Printf.sprintf "UnexpectedType(%d)" (ni a)
  | BufferTooShort a -> Printf.sprintf "BufferTooShort(%d)" (ni a)
  | UnsupportedClass a -> Printf.sprintf "UnsupportedClass(%d)" (ni a)
  | BadParam -> "BadParam" | Timeout -> "Timeout"
  | IoError a -> Printf.sprintf "IoError(%d)" (ni a)

(* abnormal outcomes print the way the harness supervisor reports the real thing *)
let pres (r : 'a res) (f : 'a -> string) : string =
  match r with
  | Ok a -> "ok:" ^ f a
  | Err e -> "err:" ^ perr e
  | UB -> "UB" | Panic -> "PANIC" | DebugAssert -> "DEBUGASSERT" | OutOfFuel -> "OUTOFFUEL"

exception Abnormal of string
let abn (r : 'a res) : unit =
  match r with
  | UB -> raise (Abnormal "UB") | Panic -> raise (Abnormal "PANIC(overflow)")
  | DebugAssert -> raise (Abnormal "PANIC(debug_assert)") | OutOfFuel -> raise (Abnormal "OUTOFFUEL")
  | _ -> ()

let op_name (msg : byte list) (p : int) : string =
  let c = c_with_pos msg (n_of_int p) in
  let rd nk = let r = read_name msg nk c in abn r;
    pres r (fun (t, c') -> hex t ^ ":" ^ string_of_int (ni c'.pos)) in
  let rh = rd Heap in
  let ri = rd Inline in
  let skr = skip_name msg c in abn skr;
  let sk = pres skr (fun c' -> string_of_int (ni c'.pos)) in
  let lbr = labels_drain msg c in abn lbr;
  let lb = match lbr with
    | Ok (ls, e) ->
      "[" ^ String.concat "" (List.map (fun (p, b) -> string_of_int (ni p) ^ ":" ^ hex b ^ ",") ls) ^ "]"
      ^ (match e with None -> "none" | Some e -> "err:" ^ perr e)
    | _ -> "?" in
  let th = match read_name msg Heap c with Ok (t, _) -> "ok:" ^ hex t | r -> pres r (fun _ -> "") in
  let ti = match read_name msg Inline c with Ok (t, _) -> "ok:" ^ hex t | r -> pres r (fun _ -> "") in
  Printf.sprintf "RH=%s RI=%s SK=%s LB=%s TH=%s TI=%s" rh ri sk lb th ti

(* spec side of the names stream: the code-blind RFC expansion (Spec/WireName.v) *)
let spec_name_line (msg : byte list) (p : int) : string =
  match spec_name msg (n_of_int p) with
  | SReject w -> Printf.sprintf "reject %d" (ni w)
  | SAccept (ls, r) ->
    let bs = List.map snd ls in
    let valid = List.for_all label_ok bs in
    Printf.sprintf "accept %d %d %d %s [%s]" (ni r) (if valid then 1 else 0) (ni (wire_len bs))
      (hex (join_labels bs))
      (String.concat "" (List.map (fun (p, b) -> string_of_int (ni p) ^ ":" ^ hex b ^ ",") ls))

let dispatch (op : string) (a : string array) : string =
  match op with
  | "name" -> op_name (unhex a.(0)) (int_of_string a.(1))
  | _ -> "BADOP(" ^ op ^ ")"

let spec (op : string) (a : string array) : string option =
  match op with
  | "name" -> Some (spec_name_line (unhex a.(0)) (int_of_string a.(1)))
  | _ -> None

let () =
  try
    while true do
      let line = String.trim (input_line stdin) in
      if line <> "" && line.[0] <> '#' then begin
        match String.split_on_char ' ' line with
        | id :: op :: rest ->
          let out = (try dispatch op (Array.of_list rest) with Abnormal s -> s) in
          print_string ("R " ^ id ^ " " ^ out ^ "\n");
          (match spec op (Array.of_list rest) with
           | Some sp -> print_string ("S " ^ id ^ " " ^ sp ^ "\n") | None -> ())
        | _ -> ()
      end
    done
  with End_of_file -> ()
