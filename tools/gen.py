"""gen.py — seeded, structured case generators for the correspondence streams.
Every random choice derives from one random.Random(seed)."""
import random

LABEL_CHARS = b"abcdefghijklmnopqrstuvwxyzABCDEFGHIJKLMNOPQRSTUVWXYZ0123456789-_"
BOUNDARY_BYTES = [0x2d, 0x2e, 0x2f, 0x30, 0x39, 0x3a, 0x40, 0x41, 0x5a, 0x5b, 0x5f, 0x60, 0x61, 0x7a, 0x7b, 0x7f, 0x80, 0xff, 0x00, 0x20]


def hx(b):
    return bytes(b).hex() if len(b) else "-"


def rand_label(rng, n=None, valid=True):
    if n is None:
        n = rng.choice([1, 1, 2, 3, 3, 5, 7, 10, 20, 62, 63])
    while True:
        l = bytes(rng.choice(LABEL_CHARS[:62] if valid else LABEL_CHARS) for _ in range(n))
        if not valid or (l[0] != 0x2d and l[-1] != 0x2d):
            return l


def small_label(rng):
    # small alphabet so that suffix sharing / equal labels are frequent
    return rng.choice([b"a", b"b", b"A", b"www", b"WWW", b"example", b"Example", b"com", b"org", b"x-y", b"_srv", b"n0", b"ab", b"aB"])


class Buf:
    def __init__(self, data=b""):
        self.b = bytearray(data)

    def pos(self):
        return len(self.b)

    def put(self, bs):
        p = len(self.b)
        self.b += bytes(bs)
        return p

    def labels(self, ls, term=b"\x00"):
        """writes labels then terminator (zero or pointer bytes); returns (start, [label starts])"""
        start = len(self.b)
        starts = []
        for l in ls:
            starts.append(len(self.b))
            self.b.append(len(l))
            self.b += l
        starts.append(len(self.b))
        self.b += term
        return start, starts


def ptr(off):
    return bytes([0xC0 | ((off >> 8) & 0x3F), off & 0xFF])


def gen_name_case(rng):
    """returns (msg bytes, pos, tag)"""
    kind = rng.random()
    b = Buf(bytes(rng.randrange(256) for _ in range(rng.choice([0, 0, 2, 12, 12, 12, 30]))))
    frags = []  # label-start offsets usable as pointer targets
    tag = "plain"
    nfr = rng.choice([0, 1, 1, 2, 3, 5])
    for _ in range(nfr):
        ls = [small_label(rng) if rng.random() < 0.7 else rand_label(rng) for _ in range(rng.choice([0, 1, 2, 3, 4]))]
        if frags and rng.random() < 0.5:
            term = ptr(rng.choice(frags))
        else:
            term = b"\x00"
        s, starts = b.labels(ls, term)
        frags += starts if term == b"\x00" else starts[:-1] + [starts[-1]]
        if rng.random() < 0.3:
            b.put(bytes(rng.randrange(256) for _ in range(rng.randrange(1, 6))))
    # the name under test
    ls = [small_label(rng) if rng.random() < 0.6 else rand_label(rng) for _ in range(rng.choice([0, 0, 1, 2, 3, 5]))]
    if kind < 0.25 and frags:
        tag = "ptr"
        s, starts = b.labels(ls, ptr(rng.choice(frags)))
    elif kind < 0.45:
        # boundary pointer targets around the first pointer position
        tag = "ptr-boundary"
        s0 = b.pos()
        fp = s0 + sum(len(l) + 1 for l in ls)
        tgt = max(0, min(0x3FFF, fp + rng.choice([-4, -3, -2, -1, 0, 1, 2, 3, 5])))
        s, starts = b.labels(ls, ptr(tgt))
    elif kind < 0.6:
        # pointer chains of chosen depth
        tag = "chain"
        depth = rng.choice([1, 2, 3, 30, 31, 32, 33, 34, 40])
        tail_ls = [small_label(rng)] if rng.random() < 0.7 else []
        t, _ = b.labels(tail_ls, b"\x00")
        prev = t
        for _ in range(depth - 1):
            lab = [small_label(rng)] if rng.random() < 0.3 else []
            p, _ = b.labels(lab, ptr(prev))
            prev = p
        s, starts = b.labels(ls, ptr(prev))
    elif kind < 0.64:
        # chain whose LATER hop points forward (beyond the name's first pointer) to a well-formed name
        tag = "chain-fwd"
        mid_ls = [small_label(rng)] if rng.random() < 0.7 else []
        mid_len = sum(len(l) + 1 for l in mid_ls) + 2
        r1 = b.pos()
        own_len = sum(len(l) + 1 for l in ls) + 2
        gap = rng.choice([0, 0, 1, 3])
        # layout: [R1: mid_ls + ptr(F)] [gap] [S: ls + ptr(R1)] [F: labels 0]
        s_pos = r1 + mid_len + gap
        f_pos = s_pos + own_len + rng.choice([-2, -1, 0, 0, 0, 1])
        b.labels(mid_ls, ptr(max(0, f_pos)))
        b.put(bytes(rng.randrange(256) for _ in range(gap)))
        s, starts = b.labels(ls, ptr(r1))
        b.labels([small_label(rng), small_label(rng)], b"\x00")
    elif kind < 0.68:
        tag = "loop"
        s0 = b.pos()
        # two pointers referring to each other / self
        if rng.random() < 0.5:
            s = b.put(ptr(s0))
        else:
            a = b.put(ptr(s0 + 2))
            b.put(ptr(s0))
            s = a if rng.random() < 0.5 else s0 + 2
    elif kind < 0.8:
        # long names near the 255 limit
        tag = "long"
        total = rng.choice([250, 252, 253, 254, 255, 256, 257, 258])
        ls = []
        rem = total - 1  # wire length incl. final zero = sum(len+1)+1
        while rem > 0:
            n = min(63, rem - 1) if rem - 1 <= 63 else rng.choice([63, 63, 62, 31, 10])
            if n <= 0:
                break
            ls.append(rand_label(rng, n))
            rem -= n + 1
        if rng.random() < 0.3 and len(ls) > 1:
            # split: tail in an earlier fragment reached by pointer
            k = rng.randrange(1, len(ls))
            t, _ = b.labels(ls[k:], b"\x00")
            s, starts = b.labels(ls[:k], ptr(t))
        else:
            s, starts = b.labels(ls, b"\x00")
    elif kind < 0.9:
        tag = "badbyte"
        ls = ls or [small_label(rng)]
        k = rng.randrange(len(ls))
        l = bytearray(ls[k])
        i = rng.choice([0, len(l) - 1, rng.randrange(len(l))])
        l[i] = rng.choice(BOUNDARY_BYTES)
        ls[k] = bytes(l)
        s, starts = b.labels(ls, b"\x00" if not frags or rng.random() < 0.5 else ptr(rng.choice(frags)))
    else:
        tag = "labeltype"
        s = b.pos()
        for l in ls:
            b.put(bytes([len(l)]) + l)
        b.put(bytes([rng.choice([0x40, 0x41, 0x7f, 0x80, 0xbf, 0x3f, 0x3e])]))
        b.put(bytes(rng.randrange(256) for _ in range(rng.randrange(0, 70))))
    msg = bytearray(b.b)
    # trailing bytes / truncation
    r = rng.random()
    if r < 0.3:
        msg += bytes(rng.randrange(256) for _ in range(rng.randrange(1, 8)))
    elif r < 0.45 and len(msg) > s:
        cut = rng.randrange(s, len(msg) + 1)
        msg = msg[:cut]
        tag += "+trunc"
    pos = s
    if rng.random() < 0.05:
        pos = rng.randrange(0, len(msg) + 3)
        tag += "+randpos"
    return bytes(msg), pos, tag


def gen_names(rng, n):
    out = []
    tags = {}
    for i in range(n):
        if rng.random() < 0.06:
            m = bytes(rng.randrange(256) for _ in range(rng.randrange(0, 40)))
            p = rng.randrange(0, len(m) + 2)
            tag = "random"
        else:
            m, p, tag = gen_name_case(rng)
        tags[tag] = tags.get(tag, 0) + 1
        out.append("n%d name %s %d" % (i, hx(m), p))
    return out, tags


def gen_names_big(rng, n):
    """few large messages: pointer targets up to 0x3FFF, names deep inside 16K+ buffers"""
    out = []
    for i in range(n):
        size = rng.choice([300, 5000, 8190, 8200, 16383, 16390, 20000])
        b = Buf(bytes(rng.randrange(256) for _ in range(12)))
        targets = []
        while b.pos() < size:
            ls = [small_label(rng) for _ in range(rng.choice([1, 2, 3]))]
            t, st = b.labels(ls, b"\x00")
            targets.append(t)
            b.put(bytes(rng.randrange(256) for _ in range(rng.choice([0, 50, 700, 3000]))))
        tg = rng.choice(targets[-3:] if rng.random() < 0.7 else targets)
        tg = min(tg, 0x3FFF)
        s, _ = b.labels([small_label(rng)], ptr(tg))
        out.append("nb%d name %s %d" % (i, hx(b.b), s))
    return out


# ------------------------------------------------------------------------------- name strings
def gen_text(rng):
    """a name string from a grammar hitting every validity boundary; returns (bytes, tag)"""
    k = rng.random()
    if k < 0.30:
        ls = [small_label(rng) if rng.random() < 0.6 else rand_label(rng) for _ in range(rng.choice([1, 1, 2, 3, 4]))]
        s = b".".join(ls)
        tag = "valid"
    elif k < 0.45:
        # total lengths around the limit: text 250..257 (without the final dot)
        total = rng.choice([250, 252, 253, 254, 255, 256, 257])
        ls = []
        rem = total
        while rem > 0:
            n = min(rem, rng.choice([63, 63, 62, 30, 1]))
            if rem - n == 1:
                n = rem if rem <= 63 else n - 1
            ls.append(rand_label(rng, max(1, n)))
            rem -= n + 1
        s = b".".join(ls)
        tag = "long"
    elif k < 0.55:
        ls = [rand_label(rng, rng.choice([62, 63, 64, 65])) for _ in range(rng.choice([1, 2]))]
        s = b".".join(ls)
        tag = "labellen"
    elif k < 0.70:
        ls = [bytearray(small_label(rng)) for _ in range(rng.choice([1, 2, 3]))]
        l = rng.choice(ls)
        i = rng.choice([0, len(l) - 1, rng.randrange(len(l))])
        l[i] = rng.choice(BOUNDARY_BYTES + [0x2d, 0x2d])
        s = b".".join(bytes(x) for x in ls)
        tag = "badchar"
    elif k < 0.80:
        s = rng.choice([b"", b".", b"..", b".a", b"a..b", b"a.b..", b"-", b"a.-", b"-.a", b"a-.b", b"_", b"a_b", b"_a._b", b"a. b", b"a.b ", b" "])
        tag = "shape"
    elif k < 0.88:
        s = "".join(rng.choice(["a", "é", "ü", "‼", "b.", "c"]) for _ in range(rng.randrange(1, 6))).encode()
        tag = "unicode"
    else:
        s = bytes(rng.choice(LABEL_CHARS + b"....") for _ in range(rng.randrange(0, 12)))
        tag = "random"
    if rng.random() < 0.35 and not s.endswith(b"."):
        s += b"."
        tag += "+dot"
    return s, tag


def recase(rng, s):
    return bytes((c ^ 0x20) if (65 <= c <= 90 or 97 <= c <= 122) and rng.random() < 0.5 else c for c in s)
