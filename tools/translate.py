#!/usr/bin/env python3
"""translate.py — regenerate the Gallina leaves (coq/theories/Gen*.v) from /repo's current source.

Every constant, mask/shift expression, character-class predicate and guard condition that the
proofs rely on is *located* in the Rust source by shape (file, enclosing scopes, kind of syntactic
position, identifiers it must mention — required to match exactly once), *parsed* by a small Pratt
parser for the Rust expression subset that occurs at these points, and *printed* as a Gallina
definition over N / bool.  The hand-written model calls these definitions; GenSpec.v proves what
the property theorems need of them.  So an edit of such an expression in /repo changes Gen*.v and
the kernel re-checks every lemma against what the code says now.

usage: translate.py [--repo /repo] [--points tools/extraction_points.json] [--out coq/theories]
exit 0: all points located and translated; files rewritten only if content changed.
exit 3: some point could not be located/parsed (report on stdout as JSON lines "MISS ...").
"""
import sys, os, re, json, argparse, hashlib

# ------------------------------------------------------------------------------------------ lexer
TOK_RE = re.compile(r"""
    (?P<ws>\s+)
  | (?P<lcomment>//[^\n]*)
  | (?P<bcomment>/\*.*?\*/)
  | (?P<bstr>b"(?:\\.|[^"\\])*")
  | (?P<str>"(?:\\.|[^"\\])*")
  | (?P<bchar>b'(?:\\.|[^'\\])')
  | (?P<char>'(?:\\.|[^'\\])')
  | (?P<lifetime>'[A-Za-z_][A-Za-z0-9_]*)
  | (?P<num>0b[01_]+(?:[ui](?:8|16|32|64|128|size))?|0x[0-9a-fA-F_]+(?:[ui](?:8|16|32|64|128|size))?|[0-9][0-9_]*(?:[ui](?:8|16|32|64|128|size))?)
  | (?P<ident>[\$]?[A-Za-z_][A-Za-z0-9_]*!?)
  | (?P<op>::|->|=>|==|!=|<=|>=|&&|\|\||<<=|>>=|<<|>>|\+=|-=|\*=|/=|\.\.=|\.\.|[-+*/%&|^!<>=.,;:#?@~\[\]\(\)\{\}])
""", re.X | re.S)


def lex(src):
    out = []
    i = 0
    n = len(src)
    while i < n:
        m = TOK_RE.match(src, i)
        if not m:
            raise SyntaxError("lex error at %d: %r" % (i, src[i:i + 30]))
        k = m.lastgroup
        if k not in ("ws", "lcomment", "bcomment"):
            out.append((k, m.group(k), m.start()))
        i = m.end()
    return out


def toks_text(toks):
    return " ".join(t[1] for t in toks)


# --------------------------------------------------------------------------------------- locating
def match_brace(toks, i, open_="{", close="}"):
    """toks[i] is an opening token; return index of its matching close."""
    depth = 0
    j = i
    while j < len(toks):
        v = toks[j][1]
        if toks[j][0] == "op":
            if v == open_:
                depth += 1
            elif v == close:
                depth -= 1
                if depth == 0:
                    return j
        j += 1
    raise SyntaxError("unbalanced")


def find_scope(toks, spec):
    """spec like 'fn window', 'macro labels_loop', 'impl InlineName', 'impl Ord for Name',
    'const POINTER_MASK'. returns list of (start,end) token ranges of the bodies found."""
    words = spec.split()
    kind = words[0]
    res = []
    n = len(toks)
    for i in range(n):
        if kind == "fn":
            if toks[i][1] == "fn" and i + 1 < n and toks[i + 1][1] == words[1]:
                j = i + 2
                # find the body's opening brace at paren-depth 0
                depth = 0
                while j < n:
                    v = toks[j][1]
                    if toks[j][0] == "op":
                        if v in "([":
                            depth += 1
                        elif v in ")]":
                            depth -= 1
                        elif v == "{" and depth == 0:
                            break
                        elif v == ";" and depth == 0:
                            j = None
                            break
                    j += 1
                if j is None or j >= n:
                    continue
                e = match_brace(toks, j)
                res.append((j + 1, e))
        elif kind == "macro":
            if toks[i][1] == "macro_rules!" and i + 1 < n and toks[i + 1][1] == words[1]:
                j = i + 2
                e = match_brace(toks, j)
                res.append((j + 1, e))
        elif kind == "impl":
            if toks[i][1] == "impl":
                # collect header tokens until '{'
                j = i + 1
                hdr = []
                while j < n and not (toks[j][0] == "op" and toks[j][1] == "{"):
                    hdr.append(toks[j][1])
                    j += 1
                # strip generics
                h = [w for w in hdr if re.match(r"[A-Za-z_]", w)]
                want = words[1:]
                hs = " ".join(h)
                if all(w in h for w in want) and ((("for" in want) == ("for" in h))):
                    e = match_brace(toks, j)
                    res.append((j + 1, e))
    return res


def narrow(toks, scopes):
    ranges = [(0, len(toks))]
    for sp in scopes:
        new = []
        for (a, b) in ranges:
            sub = toks[a:b]
            for (s, e) in find_scope(sub, sp):
                new.append((a + s, a + e))
        ranges = new
    return ranges


def cond_candidates(toks, a, b, kw):
    """all `kw <cond> {` inside toks[a:b] (kw in if/while); returns token sublists"""
    out = []
    i = a
    while i < b:
        if toks[i][1] == kw and toks[i][0] == "ident":
            # `if let` is not a boolean condition
            if toks[i + 1][1] == "let":
                i += 1
                continue
            j = i + 1
            depth = 0
            while j < b:
                v = toks[j][1]
                if toks[j][0] == "op":
                    if v in "([":
                        depth += 1
                    elif v in ")]":
                        depth -= 1
                    elif v == "{" and depth == 0:
                        break
                j += 1
            out.append(toks[i + 1:j])
        i += 1
    return out


def stmt_split(toks, a, b):
    """split toks[a:b] at top-level ';' (depth 0 w.r.t. all brackets)"""
    out = []
    cur = []
    depth = 0
    for t in toks[a:b]:
        v = t[1]
        if t[0] == "op":
            if v in "([{":
                depth += 1
            elif v in ")]}":
                depth -= 1
            elif v == ";" and depth == 0:
                out.append(cur)
                cur = []
                continue
        cur.append(t)
    out.append(cur)
    return out


def locate(toks, pt):
    """returns list of candidate token lists for extraction point pt"""
    kind = pt["kind"]
    if kind in ("const", "table"):
        name = pt["name_in_source"]
        out = []
        for i in range(len(toks) - 1):
            if toks[i][1] in ("const", "static") and toks[i + 1][1] == name:
                j = i
                while toks[j][1] != "=":
                    j += 1
                k = j
                depth = 0
                while not (toks[k][1] == ";" and depth == 0):
                    if toks[k][0] == "op" and toks[k][1] in "([{":
                        depth += 1
                    if toks[k][0] == "op" and toks[k][1] in ")]}":
                        depth -= 1
                    k += 1
                out.append(toks[j + 1:k])
        return out
    ranges = narrow(toks, pt.get("scope", []))
    cands = []
    for (a, b) in ranges:
        if kind in ("if", "while"):
            cands += cond_candidates(toks, a, b, kind)
        elif kind == "tail":
            st = stmt_split(toks, a, b)
            if pt.get("whole_body") and len([x for x in st if x]) != 1:
                raise LookupError("the body of %s is no longer a single expression: %s" % (pt.get("scope"), toks_text(toks[a:b])[:160]))
            if st and st[-1]:
                cands.append(st[-1])
        elif kind == "let":
            var = pt["var"]
            for s in stmt_split_deep(toks, a, b):
                if len(s) > 3 and s[0][1] == "let":
                    k = 1
                    if s[k][1] == "mut":
                        k += 1
                    if s[k][1] == var:
                        # skip optional type annotation
                        while s[k][1] != "=":
                            k += 1
                        cands.append(s[k + 1:])
        elif kind == "debug_assert":
            i = a
            while i < b:
                if toks[i][1] == "debug_assert!":
                    e = match_brace(toks, i + 1, "(", ")")
                    cands.append(toks[i + 2:e])
                i += 1
        elif kind == "call_arg":
            # argument list of a call `callee(args)`; pt['callee'] token text e.g. 'get_unchecked'
            i = a
            while i < b:
                if toks[i][1] == pt["callee"] and toks[i + 1][1] == "(":
                    e = match_brace(toks, i + 1, "(", ")")
                    cands.append(toks[i + 2:e])
                i += 1
        elif kind == "regex":
            text = toks_text(toks[a:b])
            for m in re.finditer(pt["regex"], text):
                cands.append(lex(m.group(1)))
        else:
            raise ValueError("unknown kind " + kind)
    want = pt.get("mentions", [])
    reject = pt.get("not_mentions", [])
    sel = []
    def has(c, w):
        text = " " + toks_text(c) + " "
        return (" " + toks_text(lex(w)) + " ") in text
    for c in cands:
        if all(has(c, w) for w in want) and not any(has(c, w) for w in reject):
            sel.append(c)
    return sel


def stmt_split_deep(toks, a, b):
    """statements at any brace depth inside [a,b): split on ';' and on '{' '}' boundaries"""
    out = []
    cur = []
    pd = 0
    for t in toks[a:b]:
        v = t[1]
        if t[0] == "op":
            if v in "([":
                pd += 1
            elif v in ")]":
                pd -= 1
            elif v in "{}" and pd == 0:
                # struct-literal braces inside a let are rare at our points; treat as boundary
                if cur and cur[0][1] == "let" and v == "{":
                    cur.append(t)
                    pd += 1  # treat as bracket until closed
                    continue
                out.append(cur)
                cur = []
                continue
            elif v == "}" and pd > 0:
                pd -= 1
                cur.append(t)
                continue
            elif v == ";" and pd == 0:
                out.append(cur)
                cur = []
                continue
        cur.append(t)
    out.append(cur)
    return [s for s in out if s]


# ----------------------------------------------------------------------------------------- parser
class Node:
    def __init__(self, op, args=(), ty=None, val=None):
        self.op, self.args, self.ty, self.val = op, list(args), ty, val

    def __repr__(self):
        return "%s(%s%s)" % (self.op, self.val if self.val is not None else "",
                             ",".join(map(repr, self.args)))


ENUMS = {"ProtocolStrategy::Udp": 0, "ProtocolStrategy::Tcp": 1, "ProtocolStrategy::NoTcp": 2,
         "ErrorKind::TimedOut": 1, "ErrorKind::WouldBlock": 2}

BINPREC = {
    "||": 1, "&&": 2,
    "==": 3, "!=": 3, "<": 3, ">": 3, "<=": 3, ">=": 3,
    "|": 4, "^": 5, "&": 6, "<<": 7, ">>": 7, "+": 8, "-": 8, "*": 9, "/": 9, "%": 9,
}
AS_PREC = 10
WIDTH = {"u8": 8, "u16": 16, "u32": 32, "u64": 64, "usize": 64, "u128": 128, "i32": 32}


class Parser:
    def __init__(self, toks, params):
        self.t = toks
        self.i = 0
        # params: list of (source-token-text, gallina-name, type) ; longest first
        self.params = sorted(params, key=lambda p: -len(p[0].split()))
        self.params_tok = [(toks_text(lex(p[0])).split(" "), p[1], p[2]) for p in self.params]

    def peek(self, k=0):
        return self.t[self.i + k][1] if self.i + k < len(self.t) else None

    def eat(self, v=None):
        tok = self.t[self.i]
        if v is not None and tok[1] != v:
            raise SyntaxError("expected %r got %r in %s" % (v, tok[1], toks_text(self.t)))
        self.i += 1
        return tok

    def try_param(self):
        for (ptoks, name, ty) in self.params_tok:
            n = len(ptoks)
            if [x[1] for x in self.t[self.i:self.i + n]] == ptoks:
                # must not be followed by something making it a longer path/call, except operators
                nxt = self.peek(n)
                if nxt in ("(", "::") and not ptoks[-1] == ")":
                    continue
                if nxt == "." and self.peek(n + 1) is not None and re.match(r"[A-Za-z_]", self.peek(n + 1)) \
                        and self.peek(n + 2) != "(":
                    continue  # longer field path
                self.i += n
                return Node("param", ty=ty, val=name)
        return None

    def parse(self):
        e = self.expr(0)
        if self.i != len(self.t):
            raise SyntaxError("trailing tokens %r in %s" % (self.peek(), toks_text(self.t)))
        return e

    def expr(self, minprec):
        lhs = self.unary()
        while True:
            op = self.peek()
            if op == "as" and AS_PREC >= minprec:
                self.eat()
                ty = self.eat()[1]
                lhs = Node("as", [lhs], val=ty)
                continue
            if op in BINPREC and BINPREC[op] >= minprec:
                self.eat()
                rhs = self.expr(BINPREC[op] + 1)
                lhs = Node("bin", [lhs, rhs], val=op)
                continue
            break
        return lhs

    def unary(self):
        op = self.peek()
        if op == "!":
            self.eat()
            return Node("not", [self.unary()])
        if op == "*":
            self.eat()
            return self.unary()  # deref: transparent
        if op == "&":
            self.eat()
            if self.peek() == "mut":
                self.eat()
            return self.unary()  # borrow: transparent
        if op == "-":
            raise SyntaxError("unary minus unsupported")
        return self.postfix(self.atom())

    def atom(self):
        p = self.try_param()
        if p is not None:
            return p
        kind, v, _ = self.t[self.i]
        if kind == "num":
            self.eat()
            m = re.match(r"(0b[01_]+|0x[0-9a-fA-F_]+|[0-9][0-9_]*)((?:[ui](?:8|16|32|64|128|size))?)$", v)
            lit, suf = m.group(1).replace("_", ""), m.group(2)
            return Node("lit", ty=("N", WIDTH.get(suf)), val=int(lit, 0))
        if kind == "bchar":
            self.eat()
            body = v[2:-1]
            val = {"\\n": 10, "\\r": 13, "\\t": 9, "\\\\": 92, "\\'": 39, "\\0": 0}.get(body)
            if val is None:
                if body.startswith("\\x"):
                    val = int(body[2:], 16)
                else:
                    assert len(body) == 1, body
                    val = ord(body)
            return Node("lit", ty=("N", 8), val=val)
        if kind == "char":
            self.eat()
            body = v[1:-1]
            assert len(body) == 1, body
            return Node("lit", ty=("N", 32), val=ord(body))
        if v == "(":
            self.eat()
            e = self.expr(0)
            self.eat(")")
            return e
        if v == "if":
            self.eat()
            # condition up to '{'
            c = self.expr(0)
            self.eat("{")
            a = self.expr(0)
            self.eat("}")
            self.eat("else")
            self.eat("{")
            b = self.expr(0)
            self.eat("}")
            return Node("ite", [c, a, b])
        if v in ("true", "false"):
            self.eat()
            return Node("blit", ty=("bool", None), val=(v == "true"))
        if v == "matches!":
            self.eat()
            self.eat("(")
            scrut = self.expr(0)
            self.eat(",")
            alts = []
            cur = []
            while self.peek() != ")":
                tk = self.eat()[1]
                if tk == "|":
                    alts.append("".join(cur))
                    cur = []
                else:
                    cur.append(tk)
            alts.append("".join(cur))
            self.eat(")")
            return Node("matches", [scrut], val=alts)
        if v == "get_bit!":
            self.eat()
            self.eat("(")
            e = self.expr(0)
            self.eat(",")
            l = self.expr(0)
            self.eat(")")
            return Node("getbit", [e, l])
        if kind == "ident":
            # path a::b::c possibly followed by call
            path = [self.eat()[1]]
            while self.peek() == "::":
                self.eat()
                if self.peek() == "<":
                    # turbofish: keep textually
                    depth = 0
                    buf = []
                    while True:
                        tk = self.eat()[1]
                        buf.append(tk)
                        if tk == "<":
                            depth += 1
                        if tk == ">":
                            depth -= 1
                            if depth == 0:
                                break
                    path[-1] += "::" + "".join(buf)
                    continue
                path.append(self.eat()[1])
            name = "::".join(path)
            if self.peek() == "(":
                self.eat()
                args = []
                while self.peek() != ")":
                    args.append(self.expr(0))
                    if self.peek() == ",":
                        self.eat()
                self.eat(")")
                return Node("call", args, val=name)
            return Node("path", val=name)
        raise SyntaxError("unexpected token %r in %s" % (v, toks_text(self.t)))

    def postfix(self, e):
        while True:
            if self.peek() == ".":
                # method call or field
                name = self.t[self.i + 1][1]
                if self.peek(2) == "(":
                    self.eat()
                    self.eat()
                    self.eat("(")
                    args = []
                    while self.peek() != ")":
                        args.append(self.expr(0))
                        if self.peek() == ",":
                            self.eat()
                    self.eat(")")
                    e = Node("method", [e] + args, val=name)
                    continue
                else:
                    self.eat()
                    self.eat()
                    e = Node("field", [e], val=name)
                    continue
            break
        return e


# ---------------------------------------------------------------------------------------- printer
class Ctx:
    def __init__(self, consts):
        self.consts = consts  # name -> (gallina name)
        self.subs = []        # (a,b) for each subtraction: side conditions


def width_of(ty):
    return ty[1] if ty else None


def emit(n, cx):
    """returns (gallina-string, (kind,width))"""
    op = n.op
    if op == "param":
        ty = n.ty
        if ty == "bool":
            return n.val, ("bool", None)
        return n.val, ("N", WIDTH.get(ty))
    if op == "lit":
        return str(n.val), n.ty
    if op == "blit":
        return ("true" if n.val else "false"), ("bool", None)
    if op == "path":
        nm = n.val
        last = nm.split("::")[-1]
        if nm in ("u16::MAX",):
            return "65535", ("N", 16)
        if nm in ENUMS:
            return str(ENUMS[nm]), ("N", None)
        if nm in ("u8::MAX",):
            return "255", ("N", 8)
        if nm in ("u32::MAX",):
            return "4294967295", ("N", 32)
        if last in cx.consts:
            return cx.consts[last], ("N", None)
        # a constant that is not an extraction point: inline its defining expression, looked up in
        # the file being translated and then in src/constants.rs (derived constants stay tied)
        depth = getattr(cx, "depth", 0)
        if depth < 6:
            for toks in (getattr(cx, "cur_toks", None), getattr(cx, "const_toks", None)):
                if not toks:
                    continue
                c = locate(toks, {"kind": "const", "name_in_source": last})
                if len(c) == 1:
                    cx.depth = depth + 1
                    try:
                        sub = Parser(c[0], []).parse()
                        body, ty = emit(sub, cx)
                    finally:
                        cx.depth = depth
                    return "(" + body + ")", ty
        raise SyntaxError("unknown path %s (not a declared parameter or constant)" % nm)
    if op == "as":
        s, ty = emit(n.args[0], cx)
        w = WIDTH.get(n.val)
        if w is None:
            raise SyntaxError("cast to %s" % n.val)
        if ty[0] == "bool":
            return "(if %s then 1 else 0)" % s, ("N", w)
        sw = ty[1]
        if w >= 64 or (sw is not None and sw <= w):
            return s, ("N", w)
        return "(%s mod %d)" % (s, 2 ** w), ("N", w)
    if op == "not":
        s, ty = emit(n.args[0], cx)
        if ty[0] == "bool":
            return "(negb %s)" % s, ty
        if ty[1] is None:
            raise SyntaxError("bitwise not of unknown width")
        return "(%d - %s)" % (2 ** ty[1] - 1, s), ty
    if op == "ite":
        c, _ = emit(n.args[0], cx)
        a, ta = emit(n.args[1], cx)
        b, tb = emit(n.args[2], cx)
        return "(if %s then %s else %s)" % (c, a, b), ta
    if op == "getbit":
        e, _ = emit(n.args[0], cx)
        l, _ = emit(n.args[1], cx)
        return "(negb (N.land %s (N.shiftl 1 %s) =? 0))" % (e, l), ("bool", None)
    if op == "matches":
        raise SyntaxError("matches! needs an enum table (not used yet)")
    if op == "bin":
        o = n.val
        a, ta = emit(n.args[0], cx)
        b, tb = emit(n.args[1], cx)
        w = max([x for x in (ta[1], tb[1]) if x is not None], default=None)
        if o in ("&&", "||"):
            return "(%s %s %s)" % ({"&&": "andb", "||": "orb"}[o], a, b), ("bool", None)
        if o in ("==", "!="):
            if ta[0] == "bool" or tb[0] == "bool":
                s = "(Bool.eqb %s %s)" % (a, b)
            else:
                s = "(%s =? %s)" % (a, b)
            return (s if o == "==" else "(negb %s)" % s), ("bool", None)
        if o == "<":
            return "(%s <? %s)" % (a, b), ("bool", None)
        if o == "<=":
            return "(%s <=? %s)" % (a, b), ("bool", None)
        if o == ">":
            return "(%s <? %s)" % (b, a), ("bool", None)
        if o == ">=":
            return "(%s <=? %s)" % (b, a), ("bool", None)
        if o == "+":
            return "(%s + %s)" % (a, b), ("N", w)
        if o == "*":
            return "(%s * %s)" % (a, b), ("N", w)
        if o == "-":
            cx.subs.append((a, b))
            return "(%s - %s)" % (a, b), ("N", w)
        if o == "&":
            if ta[0] == "bool":
                return "(andb %s %s)" % (a, b), ta
            return "(N.land %s %s)" % (a, b), ("N", w)
        if o == "|":
            if ta[0] == "bool":
                return "(orb %s %s)" % (a, b), ta
            return "(N.lor %s %s)" % (a, b), ("N", w)
        if o == "^":
            return "(N.lxor %s %s)" % (a, b), ("N", w)
        if o == "<<":
            lw = ta[1]
            s = "(N.shiftl %s %s)" % (a, b)
            if lw is not None and lw < 64:
                s = "(%s mod %d)" % (s, 2 ** lw)
            elif lw is None:
                raise SyntaxError("shl of unknown width: %s" % a)
            return s, ("N", lw)
        if o == ">>":
            return "(N.shiftr %s %s)" % (a, b), ("N", ta[1])
        if o == "/":
            return "(%s / %s)" % (a, b), ("N", w)
        if o == "%":
            return "(%s mod %s)" % (a, b), ("N", w)
        raise SyntaxError("binop " + o)
    if op == "method":
        m = n.val
        recv, tr = emit(n.args[0], cx)
        args = [emit(x, cx) for x in n.args[1:]]
        if m == "saturating_sub":
            return "(%s - %s)" % (recv, args[0][0]), tr
        if m == "min":
            return "(N.min %s %s)" % (recv, args[0][0]), tr
        if m == "max":
            return "(N.max %s %s)" % (recv, args[0][0]), tr
        if m == "is_ascii_alphanumeric":
            return "(is_ascii_alphanumeric %s)" % recv, ("bool", None)
        if m == "to_ascii_lowercase":
            return "(to_ascii_lowercase %s)" % recv, ("N", 8)
        if m in ("value", "into", "clone"):
            return recv, tr
        if m == "is_some" or m == "is_none":
            raise SyntaxError("Option observers must be declared as parameters")
        raise SyntaxError("method ." + m)
    if op == "call":
        f = n.val
        args = [emit(x, cx) for x in n.args]
        last = f.split("::")[-1]
        if re.match(r"(u8|u16|u32|u64|usize)::from$", f):
            w = WIDTH[f.split("::")[0]]
            s, ty = args[0]
            if ty[0] == "bool":
                return "(if %s then 1 else 0)" % s, ("N", w)
            return s, ("N", w)
        if f.startswith("std::mem::size_of::<") or f.startswith("size_of::<"):
            raise SyntaxError("size_of must be declared as a parameter")
        if last in cx.funs:
            return "(%s %s)" % (cx.funs[last], " ".join(a[0] for a in args)), ("N", None)
        raise SyntaxError("call " + f)
    if op == "field":
        raise SyntaxError("field access .%s must be declared as a parameter" % n.val)
    raise SyntaxError("node " + op)


# ------------------------------------------------------------------------------------------- main
def gallina_type(ty):
    return "bool" if ty == "bool" else "N"


def parse_rty(ts, i=0):
    """parse a Rust type from token list ts starting at i; returns (gallina-string, next-index)"""
    def skip_lifetime(i):
        while i < len(ts) and ts[i][0] == "lifetime":
            i += 1
        return i
    v = ts[i][1]
    if v == "&":
        i = skip_lifetime(i + 1)
        mut = False
        if ts[i][1] == "mut":
            mut = True
            i += 1
        inner, i = parse_rty(ts, i)
        return ("(RefMut %s)" % inner if mut else "(Ref %s)" % inner), i
    if v == "[":
        inner, i = parse_rty(ts, i + 1)
        # [T] or [T; N]
        while ts[i][1] != "]":
            i += 1
        return "(Slice %s)" % inner, i + 1
    if v == "(":
        # tuple
        i += 1
        items = []
        while ts[i][1] != ")":
            t, i = parse_rty(ts, i)
            items.append(t)
            if ts[i][1] == ",":
                i += 1
        return "(App \"tuple\" [%s])" % "; ".join(items), i + 1
    if v in ("dyn", "impl"):
        return "(Leaf \"%s\")" % v, len(ts)
    # path with optional generics
    name = ts[i][1]
    i += 1
    while i < len(ts) and ts[i][1] == "::":
        name = ts[i + 1][1]
        i += 2
    if i < len(ts) and ts[i][1] == "<":
        i += 1
        args = []
        while ts[i][1] != ">":
            if ts[i][0] == "lifetime":
                i += 1
            elif ts[i][0] == "num" or (ts[i][0] == "ident" and ts[i][1].isupper()):
                i += 1  # const generic
            else:
                t, i = parse_rty(ts, i)
                args.append(t)
            if i < len(ts) and ts[i][1] == ",":
                i += 1
        return "(App \"%s\" [%s])" % (name, "; ".join(args)), i + 1
    return "(Leaf \"%s\")" % name, i


def translate_struct(pt, toks):
    """struct NAME { field: Type, ... } -> list (string * rty)"""
    name = pt["name_in_source"]
    hits = []
    for i in range(len(toks) - 1):
        if toks[i][1] == "struct" and toks[i + 1][1] == name:
            j = i + 2
            while toks[j][1] != "{":
                if toks[j][1] == ";":
                    raise LookupError("tuple/unit struct")
                j += 1
            e = match_brace(toks, j)
            hits.append((j + 1, e))
    if len(hits) != 1:
        raise LookupError("%d struct definitions named %s" % (len(hits), name))
    a, b = hits[0]
    fields = []
    i = a
    while i < b:
        # skip attributes and visibility
        if toks[i][1] == "#":
            i = match_brace(toks, i + 1, "[", "]") + 1
            continue
        if toks[i][1] == "pub":
            i += 1
            if toks[i][1] == "(":
                i = match_brace(toks, i, "(", ")") + 1
            continue
        fname = toks[i][1]
        assert toks[i + 1][1] == ":", "field syntax at %s" % fname
        # type tokens up to the top-level comma
        j = i + 2
        depth = 0
        while j < b:
            v = toks[j][1]
            if v in ("<", "(", "["):
                depth += 1
            elif v in (">", ")", "]"):
                depth -= 1
            elif v == "," and depth == 0:
                break
            j += 1
        ty, _ = parse_rty(toks[i + 2:j] + [("op", ",", 0)])
        fields.append('("%s", %s)' % (fname, ty))
        i = j + 1
    src = toks_text(toks[a:b])
    return src[:200], "[" + "; ".join(fields) + "]"


def translate_fnparams(pt, toks):
    """parameter types of `fn NAME(...)` inside the given scopes -> list (string * rty)"""
    ranges = narrow(toks, pt.get("scope", []))
    hits = []
    for (a, b) in ranges:
        for i in range(a, b - 1):
            if toks[i][1] == "fn" and toks[i + 1][1] == pt["name_in_source"]:
                j = i + 2
                while toks[j][1] != "(":
                    j += 1
                hits.append((j + 1, match_brace(toks, j, "(", ")")))
    if len(hits) != 1:
        raise LookupError("%d fns named %s" % (len(hits), pt["name_in_source"]))
    a, b = hits[0]
    params = []
    i = a
    while i < b:
        j = i
        depth = 0
        while j < b:
            v = toks[j][1]
            if v in ("<", "(", "["):
                depth += 1
            elif v in (">", ")", "]"):
                depth -= 1
            elif v == "," and depth == 0:
                break
            j += 1
        part = toks[i:j]
        txt = [t[1] for t in part]
        if txt and txt[-1] == "self":
            ty = "(RefMut (Leaf \"Self\"))" if "mut" in txt else ("(Ref (Leaf \"Self\"))" if "&" in txt else "(Leaf \"Self\")")
            params.append('("self", %s)' % ty)
        elif ":" in txt:
            k = txt.index(":")
            ty, _ = parse_rty(part[k + 1:] + [("op", ",", 0)])
            params.append('("%s", %s)' % (txt[k - 1], ty))
        i = j + 1
    return toks_text(toks[a:b])[:200], "[" + "; ".join(params) + "]"


def translate_match_bool(pt, toks):
    ranges = narrow(toks, pt.get("scope", []))
    hits = []
    for (a, b) in ranges:
        for i in range(a, b):
            if toks[i][1] == "match":
                j = i + 1
                while toks[j][1] != "{":
                    j += 1
                e = match_brace(toks, j)
                hits.append((i, j, e))
    if len(hits) != 1:
        raise LookupError("%d match expressions" % len(hits))
    i, j, e = hits[0]
    if pt.get("whole_body"):
        # the function must consist of this match expression and nothing else
        (a, b) = ranges[0]
        if len(ranges) != 1 or i != a or e + 1 != b:
            raise LookupError("the body of %s is no longer a single match expression: %s" % (pt.get("scope"), toks_text(toks[a:b])[:160]))
    arms = []
    k = j + 1
    cur = []
    while k < e:
        v = toks[k][1]
        if v == "=>":
            val = toks[k + 1][1]
            if val not in ("true", "false"):
                raise SyntaxError("non-boolean arm " + val)
            pats = "".join(cur).split("|")
            for p_ in pats:
                if p_ == "_":
                    arms.append(("_", val))
                elif p_ in ENUMS:
                    arms.append((str(ENUMS[p_]), val))
                else:
                    raise SyntaxError("unknown pattern " + p_)
            cur = []
            k += 2
            if k < e and toks[k][1] == ",":
                k += 1
            continue
        cur.append(v)
        k += 1
    body = "match s with " + " ".join("| %s => %s" % a for a in arms) + (" | _ => false" if not any(a[0] == "_" for a in arms) else "") + " end"
    return toks_text(toks[i:e + 1]), body


def translate_point(pt, toks, cx):
    if pt["kind"] == "match_bool":
        src, body = translate_match_bool(pt, toks)
        return src, body, ("bool", None), [], [("scrutinee", "s", "usize")]
    if pt["kind"] == "struct":
        src, body = translate_struct(pt, toks)
        return src, body, ("rtys", None), [], []
    if pt["kind"] == "fnparams":
        src, body = translate_fnparams(pt, toks)
        return src, body, ("rtys", None), [], []
    cands = locate(toks, pt)
    if len(cands) != 1:
        raise LookupError("%d candidates (need exactly 1)" % len(cands))
    etoks = cands[0]
    if pt["kind"] == "table":
        vals = []
        assert etoks[0][1] == "[" and etoks[-1][1] == "]", "table literal expected"
        for t in etoks[1:-1]:
            if t[0] == "num":
                vals.append(str(int(re.sub(r"[ui](8|16|32|64|128|size)$", "", t[1]).replace("_", ""), 0)))
            elif t[1] != ",":
                raise SyntaxError("table element " + t[1])
        return toks_text(etoks)[:120] + " ...", "[" + "; ".join(vals) + "]", ("list", None), [], []
    params = [(p[0], p[1], p[2] if len(p) > 2 else "usize") for p in pt.get("params", [])]
    ast = Parser(etoks, params).parse()
    cx.subs = []
    body, ty = emit(ast, cx)
    return toks_text(etoks), body, ty, list(cx.subs), params


def main():
    ap = argparse.ArgumentParser()
    ap.add_argument("--repo", default="/repo")
    ap.add_argument("--points", default=os.path.join(os.path.dirname(__file__), "extraction_points.json"))
    ap.add_argument("--out", default=os.path.join(os.path.dirname(__file__), "..", "coq", "theories"))
    ap.add_argument("--report", default=None)
    a = ap.parse_args()
    spec = json.load(open(a.points))
    misses = []
    report = {"areas": {}, "misses": misses}
    cache = {}
    consts = {}
    funs = {}
    for area in spec["areas"]:
        lines = ["(* GENERATED by tools/translate.py from the Rust source under /repo — do not edit.",
                 "   Regenerated on every check; each definition carries the source text it came from. *)",
                 "From RsdnsModel Require Import Base."]
        for imp in area.get("imports", []):
            lines.append("From RsdnsModel Require Import %s." % imp)
        lines.append("Open Scope N_scope.")
        lines.append("")
        cx = Ctx(consts)
        cx.funs = funs
        for pt in area["points"]:
            path = os.path.join(a.repo, pt["file"])
            try:
                if path not in cache:
                    cache[path] = lex(open(path).read())
                cx.cur_toks = cache[path]
                cpath = os.path.join(a.repo, "src", "constants.rs")
                if cpath not in cache and os.path.exists(cpath):
                    cache[cpath] = lex(open(cpath).read())
                cx.const_toks = cache.get(cpath)
                src, body, ty, subs, params = translate_point(pt, cache[path], cx)
            except (LookupError, SyntaxError, OSError, AssertionError, KeyError, IndexError) as e:
                misses.append({"area": area["name"], "point": pt["name"], "file": pt["file"],
                               "error": "%s: %s" % (type(e).__name__, e)})
                # keep the file compiling for other areas: emit nothing for this point
                lines.append("(* MISS %s: %s *)" % (pt["name"], str(e).replace("*)", "* )")))
                continue
            args = " ".join("(%s : %s)" % (p[1], gallina_type(p[2])) for p in params)
            rty = "bool" if ty[0] == "bool" else ("list N" if ty[0] == "list" else ("list (string * rty)" if ty[0] == "rtys" else "N"))
            lines.append("(* %s :: %s  [%s]" % (pt["file"], " / ".join(pt.get("scope", [])) or "top", pt["kind"]))
            lines.append("   %s *)" % src.replace("*)", "* )").replace("(*", "( *"))
            lines.append("Definition %s %s: %s := %s." % (pt["name"], args + (" " if args else ""), rty, body))
            if subs:
                conj = " && ".join("(%s <=? %s)" % (b, a_) for (a_, b) in subs)
                lines.append("Definition %s_nounderflow %s: bool := %s." % (pt["name"], args + (" " if args else ""), conj))
            lines.append("")
            if pt["kind"] == "const":
                consts[pt["name_in_source"]] = pt["name"]
            if pt.get("export_fn"):
                funs[pt["export_fn"]] = pt["name"]
        text = "\n".join(lines) + "\n"
        outp = os.path.join(a.out, area["name"] + ".v")
        old = open(outp).read() if os.path.exists(outp) else None
        if old != text:
            with open(outp, "w") as f:
                f.write(text)
        report["areas"][area["name"]] = {"sha256": hashlib.sha256(text.encode()).hexdigest(),
                                         "points": len(area["points"]), "changed": old != text}
    if a.report:
        json.dump(report, open(a.report, "w"), indent=1)
    for m in misses:
        print("MISS " + json.dumps(m))
    return 3 if misses else 0


if __name__ == "__main__":
    sys.exit(main())
