#!/usr/bin/env python3
"""genref.py — record the hashes of the regenerated leaf files (coq/theories/Gen*.v) of the tree on which all
proofs have just been checked, as coq/gen_reference.json (committed).  A check uses it to tell which leaf
AREAS differ from that tree: a broken closure is attributed to the property only if one of its own areas does."""
import json, os, sys
sys.path.insert(0, os.path.dirname(os.path.abspath(__file__)))
import common as C
ok, misses, rep = C.translate()
if misses:
    sys.exit("translator misses on this tree: " + json.dumps(misses)[:400])
json.dump(C.gen_hashes(), open(C.GEN_REFERENCE, "w"), indent=1, sort_keys=True)
print("reference written for %d leaf files" % len(C.gen_hashes()))
