#!/usr/bin/env python3
"""validate_seeds.py — confirm each candidate seeded change in a scratch worktree of /repo's HEAD:
   (a) with the change the crate builds (default + 4 net features) and the existing suite passes,
   (b) the demonstration fails with the change, (c) passes without it.  Results -> JSON."""
import os, sys, json, subprocess, re, shutil, glob
from concurrent.futures import ThreadPoolExecutor

SRC = os.environ.get("SEED_SRC", "/tmp/mut/out")
WT = "/var/tmp/seedwt"
FEAT = "net-std,net-tokio,net-async-std,net-smol"


def sh(cmd, cwd, env=None, timeout=1500):
    e = dict(os.environ, CARGO_NET_OFFLINE="true")
    if env:
        e.update(env)
    try:
        p = subprocess.run(cmd, cwd=cwd, shell=True, env=e, capture_output=True, text=True, timeout=timeout)
        return p.returncode, (p.stdout + p.stderr)[-3000:]
    except subprocess.TimeoutExpired:
        return 124, "timeout"


def validate(args):
    seed, slot = args
    d = os.path.join(SRC, seed)
    wt = os.path.join(WT, "w%d" % slot)
    tgt = os.path.join(WT, "target%d" % slot)
    res = {"seed": seed}
    subprocess.run("git -C /repo worktree remove --force %s" % wt, shell=True, capture_output=True)
    shutil.rmtree(wt, ignore_errors=True)
    rc, out = sh("git -C /repo worktree add -q --detach %s HEAD" % wt, "/")
    if rc != 0:
        res["error"] = "worktree: " + out
        return res
    meta = json.load(open(os.path.join(d, "meta.json")))
    demo_cmd = meta.get("demo_cmd", "")
    m = re.search(r"--features[= ]([\w,-]+)", demo_cmd)
    feats = m.group(1) if m else None
    demo_src = os.path.join(d, "demo.rs")
    test_name = "seed_demo"
    shutil.copy(demo_src, os.path.join(wt, "tests", test_name + ".rs"))
    env = {"CARGO_TARGET_DIR": tgt}
    fl = ("--features " + (feats or FEAT)) if (feats or "clients" in open(demo_src).read()) else ""
    rel = " --release" if "--release" in demo_cmd and "optional" not in demo_cmd else ""
    cmd_demo = "timeout 600 cargo test --offline -j4 %s --test %s%s 2>&1 | tail -25" % (fl, test_name, rel)
    rc, out = sh(cmd_demo + "; exit ${PIPESTATUS[0]}", wt, env)
    res["demo_without_change"] = "pass" if ("test result: ok" in out and "FAILED" not in out) else "FAIL"
    res["demo_without_out"] = out[-600:]
    rc, out = sh("git apply %s" % os.path.join(d, "patch.diff"), wt)
    if rc != 0:
        res["error"] = "patch does not apply: " + out[-300:]
        cleanup(wt)
        return res
    rc, out = sh(cmd_demo, wt, env)
    failed = ("FAILED" in out or "panicked" in out or "error: test failed" in out or "signal: " in out or "could not compile" in out)
    res["demo_with_change"] = "fail" if failed else "PASS"
    res["demo_with_out"] = out[-800:]
    os.remove(os.path.join(wt, "tests", test_name + ".rs"))
    rc1, o1 = sh("cargo build --offline -j4 2>&1 | tail -3; exit ${PIPESTATUS[0]}", wt, env)
    rc2, o2 = sh("cargo build --offline -j4 --features %s 2>&1 | tail -3; exit ${PIPESTATUS[0]}" % FEAT, wt, env)
    rc3, o3 = sh("cargo test --workspace --no-fail-fast --offline -j4 2>&1 | grep -E 'test result|FAILED|error' | head", wt, env)
    res["build_default"] = "ok" if "error" not in o1 else o1[-300:]
    res["build_features"] = "ok" if "error" not in o2 else o2[-300:]
    res["suite"] = o3.strip()
    res["suite_ok"] = ("79 passed; 0 failed" in o3 and "FAILED" not in o3)
    cleanup(wt)
    return res


def cleanup(wt):
    subprocess.run("git -C /repo worktree remove --force %s" % wt, shell=True, capture_output=True)
    shutil.rmtree(wt, ignore_errors=True)


def main():
    os.makedirs(WT, exist_ok=True)
    seeds = sorted(os.path.basename(p) for p in glob.glob(os.path.join(SRC, "C*-*")))
    if len(sys.argv) > 1:
        seeds = sys.argv[1:]
    slots = 4
    batches = [(s, i % slots) for i, s in enumerate(seeds)]
    results = []
    # one worker per slot so that slots never run concurrently on the same worktree
    def run_slot(k):
        out = []
        for s, sl in batches:
            if sl == k:
                r = validate((s, sl))
                json.dump(r, open(os.path.join(WT, s + ".json"), "w"), indent=1)
                out.append(r)
        return out
    with ThreadPoolExecutor(slots) as ex:
        for rs in ex.map(run_slot, range(slots)):
            results += rs
    for r in sorted(results, key=lambda r: r["seed"]):
        print(r["seed"], r.get("error") or "without=%s with=%s suite=%s build=%s/%s" % (r.get("demo_without_change"), r.get("demo_with_change"), r.get("suite_ok"), r.get("build_default"), r.get("build_features")))
    for k in range(slots):
        shutil.rmtree(os.path.join(WT, "target%d" % k), ignore_errors=True)


if __name__ == "__main__":
    main()
