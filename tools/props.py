"""props.py — registry: for each property the Coq theorems pinned, the Gen areas in its closure,
the correspondence streams and the level claimed."""

CORE = ["GenConst", "GenCursor", "GenLabels", "GenNames"]

DEC = CORE + ["GenHeader", "GenTypes", "GenTracker", "GenReader", "GenRData"]

NETA = ["GenConst", "GenQuery", "GenWriter"]

PROPS = {
    "C12": {"level": "exploration", "areas": NETA, "theorems": [], "streams": ["udpfilter"]},
    "C13": {"level": "exploration", "areas": NETA, "theorems": [], "streams": ["strategy"]},
    "C14": {"level": "exploration", "areas": NETA, "theorems": [], "streams": ["tcpframe"]},
    "C15": {"level": "exploration", "areas": NETA, "theorems": [], "streams": ["timing"]},
    "C16": {"level": "exploration", "areas": NETA, "theorems": [], "streams": ["history"]},
    "C20": {"level": "other", "areas": DEC, "theorems": ["C20_typed_reads_fixed_size_partial"], "streams": ["alloc"],
            "explanation": "Partial by nature: heap allocation happens inside rustc-generated code, std and arrayvec, which the Gallina model does not contain. Rocq carries the classification of the allocation-free API and the theorem that its two typed reads (A/AAAA) can only return fixed-size values; the decisive evidence is a per-call measurement with a counting global allocator over conforming scripts restricted to that API (all error paths included, driven by the same generated/mutated/random messages as C01), with allocating calls as positive controls."},
    "C01": {"level": "proof", "areas": DEC, "theorems": ["C01_name_walk_total", "C01_name_walk_bound", "C01_never_out_of_bounds", "C01_cursor_total"], "streams": ["scripts", "decode"]},
    "C04": {"level": "proof", "areas": DEC, "theorems": ["C04_exact", "C04_noninterference", "C04_raw"], "streams": ["rdlen"]},
    "C05": {"level": "proof", "areas": CORE + ["GenWriter"], "theorems": ["C05_parse_iff_valid", "C05_from_str", "C05_decoded_valid"], "streams": ["nametext"]},
    "C18": {"level": "proof", "areas": ["GenConst", "GenNames"], "theorems": ["C18_eq_iff_cmp", "C18_eq_is_fold", "C18_cmp_is_lex", "C18_cmp_antisym", "C18_cmp_trans", "C18_hash", "C18_hash_is_fold"], "streams": ["nameord"]},
    "C11": {"level": "proof", "areas": CORE + ["GenWriter", "GenQuery", "GenHeader"], "theorems": ["C11_no_oob_write", "C11_refuse_invalid", "C11_name_encoder_sound", "C11_std_async_same", "C11_example"], "streams": ["wire", "netwire"]},
    "C02": {"level": "proof", "areas": DEC + ["GenHeader"], "theorems": ["C02_header_fields", "C02_flags", "C02_opt_fields", "C02_opt_do"], "streams": ["roundtrip"]},
    "C06": {"level": "exploration", "areas": DEC + ["GenHeader"], "theorems": [], "streams": ["rrset"]},
    "C07": {"level": "proof", "areas": DEC + ["GenHeader"], "theorems": ["C07_gates_sound", "C07_gate_errors", "C07_extended_rcode"], "streams": ["rrset", "decode"]},
    "C08": {"level": "proof", "areas": DEC, "theorems": ["C08_name_types_agree", "C08_read_implies_skip", "C08_random_access_view"], "streams": ["views"]},
    "C09": {"level": "exploration", "areas": DEC, "theorems": ["C09_stays_exhausted_partial", "C09_error_latches_partial"], "streams": ["scripts"]},
    "C10": {"level": "proof", "areas": DEC, "theorems": ["C10_at_pure", "C10_history_independent", "C10_witness"], "streams": ["randacc"]},
    "C17": {"level": "proof", "areas": DEC, "theorems": ["C17_no_ub", "C17_slices_inside"], "streams": ["misuse"]},
    "C03": {
        "level": "proof",
        "areas": CORE,
        "theorems": ["C03_read_sound", "C03_skip_sound", "C03_read_total", "C03_skip_total", "C03_reject"],
        "streams": ["names"],
    },
}

TEXT = {
 "C20": {"text": "Level other/partial: Coq classifies the allocation-free API and proves its typed reads return fixed-size values only; the zero-allocation claim itself is measured per call by a counting global allocator on conforming scripts over the allocation-free API (success and every error path) and on the iterator API; the model/impl correspondence of the same scripts is checked too.", "technique": "per-call allocation counting in the harness + Coq classification lemma", "note": "the allocator, std, arrayvec and rustc codegen are observed, not modelled"},
 "C09": {"text": "The abstract linear-pass reader (Spec/LinearPass.v: code-blind skeleton parse + index/high-water/dead state machine with the documented seek rule) is extracted and used as the oracle for conforming scripts (0-3 questions x all empty/non-empty section patterns x reads/seeks/counts interleaved, generated+mutated+random messages): every item, error kind, RecordsSectionOffsetUnknown and remaining-count must match (about 40k calls compared per quick run). Coq theorems so far only for the latch (stays exhausted, errors latch); the refinement theorem is not proved, hence exploration level.", "technique": "extracted abstract state machine as differential oracle + Coq lemmas on the latch"},
 "C02": {"text": "Coq theorems: the header is the six big-endian words for every message of >=12 octets; every flag/opcode/rcode accessor equals the RFC 1035 bit field for all 65536 words (vm_compute sweep lifted by forallb_forall, bound in the statement); OPT fields are the RFC 6891 split for every 32-bit TTL (bit-vector lemmas). The record-level round trip over all legal layouts (17 typed formats + OPT + unknown, three compression engines, reader and iterator) is decided by the roundtrip stream against the generated AST: stated as partial."},
 "C06": {"text": "RecordSet::from_msg is modelled in Gallina (RecordSet.v, tied by the decode/rrset streams) and compared on CNAME-graph responses (chains, forks, loops, dangling, case variations, decoys, all 17 types, all layouts) with a 20-line resolver over the generated AST written independently in the checker; loops are detected as HANG. No Coq theorem relates from_msg to the resolver yet, hence exploration level.", "technique": "differential testing against a code-blind resolver over generated ASTs; Gallina model tied by extraction"},
 "C07": {"text": "Coq theorems for ALL byte strings: a returned record set implies <=65535 octets, QR=1, TC=0, exactly one question, RCODE nibble 0 (and zero OPT extension inside the proof); each gate yields its specific error with the offending value in the documented order; the 12-bit code is base+16*ext (finite sweep). Stream: gate combinations x OPT positions against the AST oracle."},
 "C08": {"text": "Coq theorems for all byte strings: Name and InlineName decoding agree exactly (values, errors, payloads, resume); owned-name decoding succeeding implies skipping succeeds at the same resume byte; random access equals a pure function of (message, marker). The remaining view relations (bare marker / borrowed / owned headers, iterator vs reader, NameRef::eq vs comparison of decoded names, label iteration vs decoding of RDATA names) are decided by the views stream on the implementation alone: stated as partial."},
 "C01": {"text": "Proved in Coq for all byte strings: the label/pointer walker (the only loop driven by attacker-chosen pointers) returns a value or an error within 34*(|buf|+2) iterations (measure given); every cursor primitive is total; no call of ANY script, conforming or not, reaches an out-of-bounds access. Panic-freedom of the tracker arithmetic and of the iterator/from_msg drivers for conforming scripts is carried by the differential streams (scripts, decode: debug build with overflow/ub checks + release build with guard pages), not yet by a theorem: stated as partial.",
         "technique": "Coq proof (termination measure, no-UB invariant over arbitrary scripts) + differential streams"},
 "C03": {"text": "Coq theorems: soundness of read/skip w.r.t. an inductive RFC 1035 4.1.4 expansion relation on the visible buffer (labels unchanged, resume after first pointer/terminator, all labels valid, <=255 octets), totality (value or error, never panic/UB/loop), rejection of everything without a legal expansion. Completeness (every legal layout accepted) is checked by the code-blind executable expander used as oracle on 6k/200k generated pointer graphs."},
 "C04": {"text": "Coq theorems for all 17 typed decoders and all byte strings: success consumes exactly RDLENGTH octets and restores the buffer (so unused bytes, missing bytes and straddling fields are errors); the outcome (value, error, cursor) is identical for any two equal-length messages that agree up to the end of the record data; raw access returns exactly those octets. Stream: RDLENGTH true+{-2..2}, 0, spanning the next record, 65535, chunk lengths +-1, two different tails, next-record offset."},
 "C05": {"text": "Coq theorems for all byte strings: the shared text checker accepts exactly the code-blind valid_text; both parsers return the same spelling plus root dot or an error value; every decoded name is a valid text name and re-parses to itself. Encoder agreement and encode/decode round trip are checked by the hooked encoder stream with guard-paged exact-size buffers against the same spec."},
 "C10": {"text": "Coq theorem: in every world reachable by ANY call script the three random-access calls equal fixed functions of (message, marker) that do not mention the reader; witness for the formerly failing history (typed read failing inside its window)."},
 "C11": {"text": "Coq theorems about the Writer model: the query writer is never UB for any buffer/name/type/class/OPT; a produced query implies a valid name (invalid names are refused); name encoder output <=255; std and async prepare_message extensionally equal (leaves translated separately from both sources); exact bytes of an EDNS query by vm_compute. The exact-layout claim for all inputs is checked by the hooked QueryWriter stream against an RFC-layout oracle written independently in the checker; what the four clients put on the wire is observed by the netlab stream (when built)."},
 "C17": {"text": "Coq theorem: for every family of messages and every script of public calls (any order, markers and borrowed names exchanged between readers) no step is UB, and raw access returns a slice inside the message. Stream: non-conforming scripts in a debug build (ub_checks abort) and a release build with PROT_NONE guard pages."},
 "C18": {"text": "Coq theorems for all byte strings: == iff cmp = Eq; == iff equal case-folded text; cmp is the lexicographic order on the folded text (antisymmetric, transitive); equal names feed identical bytes to the hasher. Stream checks both name types, cross-type equality, conversions and name == &str against parse-then-compare."},
}
