"""props.py — registry: for each property the Coq theorems pinned, the Gen areas in its closure,
the correspondence streams and the level claimed."""

CORE = ["GenConst", "GenCursor", "GenLabels", "GenNames"]

DEC = CORE + ["GenHeader", "GenTypes", "GenTracker", "GenReader", "GenRData"]

PROPS = {
    "C01": {"level": "proof", "areas": DEC, "theorems": [], "streams": ["scripts", "decode"]},
    "C04": {"level": "proof", "areas": DEC, "theorems": [], "streams": ["rdlen"]},
    "C05": {"level": "proof", "areas": CORE + ["GenWriter"], "theorems": ["C05_parse_iff_valid", "C05_from_str", "C05_decoded_valid"], "streams": ["nametext"]},
    "C18": {"level": "proof", "areas": ["GenConst", "GenNames"], "theorems": ["C18_eq_iff_cmp", "C18_eq_is_fold", "C18_cmp_is_lex", "C18_cmp_antisym", "C18_cmp_trans", "C18_hash", "C18_hash_is_fold"], "streams": ["nameord"]},
    "C11": {"level": "proof", "areas": CORE + ["GenWriter", "GenQuery", "GenHeader"], "theorems": [], "streams": ["wire"]},
    "C10": {"level": "proof", "areas": DEC, "theorems": ["C10_at_pure", "C10_history_independent", "C10_witness"], "streams": ["randacc"]},
    "C17": {"level": "proof", "areas": DEC, "theorems": ["C17_no_ub", "C17_slices_inside"], "streams": ["misuse"]},
    "C03": {
        "level": "proof",
        "areas": CORE,
        "theorems": ["C03_read_sound", "C03_skip_sound", "C03_read_total", "C03_skip_total", "C03_reject"],
        "streams": ["names"],
    },
}
