"""gen_msg.py — message ASTs, wire layouts (several compression engines), targeted mutations and
reader call scripts.  All randomness from the rng passed in."""
from gen import hx, small_label, rand_label, ptr, BOUNDARY_BYTES

T = {"A": 1, "NS": 2, "MD": 3, "MF": 4, "CNAME": 5, "SOA": 6, "MB": 7, "MG": 8, "MR": 9, "NULL": 10, "WKS": 11,
     "PTR": 12, "HINFO": 13, "MINFO": 14, "MX": 15, "TXT": 16, "AAAA": 28, "OPT": 41}
NAME_TYPES = [2, 3, 4, 5, 7, 8, 9, 12]
TYPED = [1, 2, 3, 4, 5, 6, 7, 8, 9, 10, 11, 12, 13, 14, 15, 16, 28]
KNOWN_TYPES = TYPED + [41, 252, 253, 254, 255]
KNOWN_CLASSES = [1, 2, 3, 4, 255]


def be(v, n):
    return int(v).to_bytes(n, "big")


def rand_name(rng, pool=None):
    """labels list; small alphabet + shared suffixes so compression applies often"""
    if pool and rng.random() < 0.6:
        base = list(rng.choice(pool))
        if rng.random() < 0.5:
            base = [small_label(rng)] + base
        elif rng.random() < 0.3 and base:
            base = base[1:]
        return fit_name(base[:8])
    n = rng.choice([0, 1, 2, 2, 3, 3, 4])
    return fit_name([small_label(rng) if rng.random() < 0.8 else rand_label(rng, rng.choice([1, 5, 20, 63])) for _ in range(n)])


def fit_name(labels):
    """a well-formed name has at most 255 octets on the wire (length octets and root included): drop leading labels
    until it fits (the generated ASTs describe WELL-FORMED messages; over-long names are the names stream's business)"""
    while sum(len(l) + 1 for l in labels) + 1 > 255:
        labels = labels[1:]
    return labels


def rand_rdata(rng, ty, pool):
    if ty == 1:
        return ("A", rng.getrandbits(32))
    if ty == 28:
        return ("Aaaa", rng.getrandbits(128))
    if ty in NAME_TYPES:
        return ("Name", ty, rand_name(rng, pool))
    if ty == 13:
        return ("Hinfo", rbytes(rng, rng.choice([0, 1, 3, 10])), rbytes(rng, rng.choice([0, 1, 5])))
    if ty == 11:
        return ("Wks", rng.getrandbits(32), rng.randrange(256), rbytes(rng, rng.choice([0, 1, 4, 9])))
    if ty == 14:
        return ("Minfo", rand_name(rng, pool), rand_name(rng, pool))
    if ty == 15:
        return ("Mx", rng.randrange(65536), rand_name(rng, pool))
    if ty == 10:
        return ("Null", rbytes(rng, rng.choice([0, 1, 2, 7, 30])))
    if ty == 6:
        return ("Soa", rand_name(rng, pool), rand_name(rng, pool)) + tuple(rng.getrandbits(32) for _ in range(5))
    if ty == 16:
        return ("Txt", [rbytes(rng, rng.choice([0, 1, 3, 12, 255])) for _ in range(rng.choice([0, 1, 1, 2, 3]))])
    if ty == 41:
        return ("Opt", rbytes(rng, rng.choice([0, 0, 0, 4, 11])))
    return ("Raw", rbytes(rng, rng.choice([0, 1, 4, 17])))


def rbytes(rng, n):
    return bytes(rng.randrange(256) for _ in range(n))


def rand_record(rng, pool, section):
    r = rng.random()
    if r < 0.72:
        ty = rng.choice(TYPED + [1, 1, 5, 5, 28, 16, 15])
    elif r < 0.80 and section == 2:
        ty = 41
    elif r < 0.9:
        ty = rng.choice([0, 17, 29, 33, 99, 251, 256, 65535, 252, 255, 0x8001, 0x0101, 0x801c, 0x4005])
    else:
        ty = rng.choice(TYPED)
    cl = 1 if rng.random() < 0.8 else rng.choice([0, 2, 3, 4, 5, 254, 255, 4096, 65535, 0x8001, 0x8001, 0x8003, 0x8004, 0x80ff, 0x7fff, 0x0101, 0x4001])
    ttl = rng.choice([0, 1, 60, 3600, 2 ** 31, 2 ** 32 - 1, rng.getrandbits(32)])
    owner = rand_name(rng, pool)
    if ty == 41:
        owner = [] if rng.random() < 0.8 else owner
        cl = rng.choice([512, 1232, 4096, 0, 65535])
        ttl = (rng.choice([0, 0, 1, 16, 255]) << 24) | (rng.choice([0, 1]) << 16) | rng.choice([0, 0x8000, 0x1234])
    return {"owner": owner, "type": ty, "class": cl, "ttl": ttl, "rdata": rand_rdata(rng, ty, pool)}


def rand_ast(rng):
    pool = [rand_name(rng) for _ in range(rng.choice([1, 2, 3]))]
    nq = rng.choice([0, 1, 1, 1, 1, 2, 3])
    qs = [(rand_name(rng, pool), rng.choice(TYPED + [255, 41, 0, 65535]), rng.choice([1, 1, 1, 3, 255, 0])) for _ in range(nq)]
    pool += [q[0] for q in qs]
    secs = []
    for s in range(3):
        k = rng.choice([0, 0, 1, 1, 2, 3, 5]) if rng.random() < 0.9 else rng.choice([8, 12])
        secs.append([rand_record(rng, pool, s) for _ in range(k)])
    flags = rng.getrandbits(16) if rng.random() < 0.3 else (0x8000 | rng.choice([0, 0x0100, 0x0180, 0x0400, 0x0200]) | rng.choice([0, 0, 0, 2, 3, 5]))
    return {"id": rng.getrandbits(16), "flags": flags, "qd": qs, "secs": secs}


class Layout:
    """renders an AST; mode: 'none' | 'greedy' | 'random' compression"""

    def __init__(self, rng, mode):
        self.rng, self.mode = rng, mode
        self.b = bytearray()
        self.suffix = {}   # tuple(labels) -> offset
        self.marks = []    # per record dict of offsets
        self.name_positions = []

    def name(self, labels, compress=True):
        start = len(self.b)
        self.name_positions.append(start)
        labels = list(labels)
        for i in range(len(labels)):
            suf = tuple(labels[i:])
            off = self.suffix.get(suf)
            use = off is not None and off < 0x4000 and compress and (
                self.mode == "greedy" or (self.mode == "random" and self.rng.random() < 0.6))
            if use:
                self.b += ptr(off)
                return start
            if len(self.b) < 0x4000 and suf not in self.suffix:
                self.suffix[suf] = len(self.b)
            self.b.append(len(labels[i]))
            self.b += labels[i]
        self.b.append(0)
        return start

    def rdata(self, rd):
        k = rd[0]
        if k == "A":
            self.b += be(rd[1], 4)
        elif k == "Aaaa":
            self.b += be(rd[1], 16)
        elif k == "Name":
            self.name(rd[2])
        elif k == "Hinfo":
            self.b += bytes([len(rd[1])]) + rd[1] + bytes([len(rd[2])]) + rd[2]
        elif k == "Wks":
            self.b += be(rd[1], 4) + bytes([rd[2]]) + rd[3]
        elif k == "Minfo":
            self.name(rd[1])
            self.name(rd[2])
        elif k == "Mx":
            self.b += be(rd[1], 2)
            self.name(rd[2])
        elif k == "Null" or k == "Raw" or k == "Opt":
            self.b += rd[1]
        elif k == "Soa":
            self.name(rd[1])
            self.name(rd[2])
            for v in rd[3:8]:
                self.b += be(v, 4)
        elif k == "Txt":
            for c in rd[1]:
                self.b += bytes([len(c)]) + c

    def render(self, ast, counts=None):
        self.b += be(ast["id"], 2) + be(ast["flags"], 2)
        cs = counts or [len(ast["qd"])] + [len(s) for s in ast["secs"]]
        for c in cs:
            self.b += be(c, 2)
        self.q_marks = []
        for (n, t, c) in ast["qd"]:
            p = self.name(n)
            self.q_marks.append({"start": p, "type_off": len(self.b)})
            self.b += be(t, 2) + be(c, 2)
        for si, sec in enumerate(ast["secs"]):
            for r in sec:
                st = self.name(r["owner"])
                to = len(self.b)
                self.b += be(r["type"], 2) + be(r["class"], 2) + be(r["ttl"], 4)
                lo = len(self.b)
                self.b += b"\x00\x00"
                rp = len(self.b)
                self.rdata(r["rdata"])
                rl = len(self.b) - rp
                self.b[lo:lo + 2] = be(rl, 2)
                self.marks.append({"start": st, "type_off": to, "rdlen_off": lo, "rdata_pos": rp, "rdlen": rl,
                                   "section": si, "type": r["type"], "rec": r})
        return bytes(self.b)


def render(rng, ast, mode=None):
    mode = mode or rng.choice(["none", "greedy", "greedy", "random"])
    L = Layout(rng, mode)
    return L.render(ast), L


def mutate(rng, msg, L):
    """one targeted mutation; returns (bytes, tag)"""
    b = bytearray(msg)
    k = rng.random()
    if k < 0.22 and L.marks:
        m = rng.choice(L.marks)
        new = max(0, min(65535, m["rdlen"] + rng.choice([-2, -1, 1, 2, 3, -m["rdlen"], 255, 65535 - m["rdlen"], len(msg)])))
        b[m["rdlen_off"]:m["rdlen_off"] + 2] = be(new, 2)
        return bytes(b), "rdlen"
    if k < 0.34:
        i = rng.choice([4, 6, 8, 10])
        v = int.from_bytes(b[i:i + 2], "big")
        b[i:i + 2] = be(max(0, min(65535, v + rng.choice([-1, 1, 2, 65535 - v, -v]))), 2)
        return bytes(b), "count"
    if k < 0.5 and len(b) > 12:
        # retarget a pointer
        ps = [i for i in range(12, len(b) - 1) if b[i] >= 0xC0]
        if ps:
            i = rng.choice(ps)
            t = rng.choice([i, i + 1, i - 1, i - 2, i - 3, i + 2, 0, 11, 12, len(b) - 1, len(b), 0x3FFF])
            t = max(0, min(0x3FFF, t))
            b[i:i + 2] = ptr(t)
            return bytes(b), "ptr"
    if k < 0.62 and L.name_positions:
        p = rng.choice(L.name_positions)
        if p < len(b) and 0 < b[p] < 64 and p + 1 < len(b):
            j = p + 1 + rng.randrange(b[p])
            if j < len(b):
                b[j] = rng.choice(BOUNDARY_BYTES)
                return bytes(b), "labelbyte"
    if k < 0.72 and L.name_positions:
        p = rng.choice(L.name_positions)
        if p < len(b):
            b[p] = rng.choice([0x40, 0x7f, 0x80, 0xbf, 0x3f, 0, 1, 63, 0xc0, 0xff])
            return bytes(b), "labellen"
    if k < 0.86 and len(b) > 13:
        cut = rng.randrange(12, len(b)) if rng.random() < 0.8 else rng.randrange(0, 13)
        return bytes(b[:cut]), "trunc"
    if k < 0.93:
        return bytes(b) + rbytes(rng, rng.choice([1, 2, 11, 40])), "trailing"
    if len(b) > 0:
        i = rng.randrange(len(b))
        b[i] = rng.randrange(256)
    return bytes(b), "byteflip"


def gen_message(rng):
    """returns (bytes, ast-or-None, layout-or-None, tag)"""
    r = rng.random()
    if r < 0.06:
        n = rng.choice([0, 1, 5, 11, 12, 13, 20, 40, 100])
        return rbytes(rng, n), None, None, "random"
    if r < 0.12:
        hdr = be(rng.getrandbits(16), 2) + be(0x8180, 2) + be(rng.choice([0, 1, 2]), 2) + be(rng.choice([0, 1, 2]), 2) + be(rng.choice([0, 1]), 2) + be(rng.choice([0, 1]), 2)
        return hdr + rbytes(rng, rng.choice([0, 5, 30, 80])), None, None, "hdr+random"
    ast = rand_ast(rng)
    msg, L = render(rng, ast)
    if r < 0.55:
        return msg, ast, L, "wellformed"
    m2, tag = mutate(rng, msg, L)
    if rng.random() < 0.2:
        m2, t2 = mutate(rng, m2, L)
        tag += "+" + t2
    return m2, ast, L, "mut:" + tag


# ------------------------------------------------------------------------------------- scripts
def g1(rng):
    return rng.choice(["marker", "href", "hdrH", "hdrI"])


def g2(rng, rtype_hint=None):
    r = rng.random()
    if r < 0.25:
        return "?skipd:L"
    if r < 0.45:
        return "?bytes:L"
    if r < 0.9:
        ty = rtype_hint if (rtype_hint in TYPED and rng.random() < 0.8) else rng.choice(TYPED)
        return "?data:%d:L" % ty
    return "?optorskip:L"


def conforming_script(rng, L, ast, ri=0, maxlen=60):
    """header first; questions; header/data pairs; seeks and counts anywhere; random access anywhere"""
    calls = ["header"]
    nq = len(ast["qd"]) if ast else rng.choice([0, 1, 2])
    recs = L.marks if L else []
    nrec = len(recs) if L else rng.choice([0, 1, 3])
    def sprinkle():
        r = rng.random()
        if r < 0.10:
            calls.append(rng.choice(["qcount", "rcount", "rcountin:0", "rcountin:1", "rcountin:2"]))
        elif r < 0.16:
            calls.append("seek:%d" % rng.choice([0, 1, 2]))
        elif r < 0.22:
            k = rng.choice(["L", str(rng.randrange(0, 6))])
            calls.append(rng.choice(["bytesat:%s" % k, "dataat:%d:%s" % (rng.choice(TYPED), k), "nrefat:%s" % k]))
        elif r < 0.27:
            calls.append("nrname:%s:%d" % (rng.choice("HI"), rng.randrange(0, 5)))
        elif r < 0.30:
            calls.append("nrlabels:%d" % rng.randrange(0, 5))
        elif r < 0.34:
            calls.append("nreq:%d:%d" % (rng.randrange(0, 5), rng.randrange(0, 5)))
    # questions
    qmode = rng.random()
    if qmode < 0.3:
        calls.append("skipq")
    elif qmode < 0.4:
        calls.append("seek:%d" % rng.choice([0, 1, 2]))
    else:
        k = nq + (1 if rng.random() < 0.15 else 0)
        for _ in range(k):
            calls.append(rng.choice(["q", "q", "qref", "theq", "theqref"]))
            sprinkle()
        if rng.random() < 0.2:
            calls.append("skipq")
    sprinkle()
    passes = 1 if rng.random() < 0.8 else 2
    idx = 0
    for _ in range(passes):
        k = nrec + (1 if rng.random() < 0.3 else 0)
        if rng.random() < 0.15:
            k = rng.randrange(0, nrec + 1)
        for i in range(k):
            calls.append(g1(rng))
            hint = recs[i]["type"] if i < len(recs) else None
            if hint == 41 and rng.random() < 0.8:
                calls.append("?optorskip:L")
            else:
                calls.append(g2(rng, hint))
            sprinkle()
            if len(calls) > maxlen:
                break
        calls.append("seek:%d" % rng.choice([0, 1, 2]))
    return ",".join("%d.%s" % (ri, c) for c in calls[:maxlen + 5])


def replay_script(rng, L, ast, ri=0):
    """read up to the end of a section, seek back to its start, read it to its end AGAIN, then seek to and read the
    later sections: the lazily learned section offsets must survive a replayed section"""
    secs = [0, 0, 0]
    for m in L.marks:
        secs[m["section"]] += 1
    calls = ["header", rng.choice(["skipq", "seek:0"])] if rng.random() < 0.6 else ["header"] + [rng.choice(["q", "qref"]) for _ in ast["qd"]]
    rec = lambda: [g1(rng), rng.choice(["?skipd:L", "?skipd:L", "?bytes:L"])]
    s = rng.choice([0, 0, 1])
    for _ in range(sum(secs[:s + 1])):
        calls += rec()
    calls.append("seek:%d" % s)
    for _ in range(secs[s]):
        calls += rec()
    for t in ([s + 1, 2] if s == 0 else [2]):
        calls.append(rng.choice(["seek:%d" % t, "seek:%d" % t, "rcountin:%d" % t]))
    calls.append("seek:%d" % rng.choice([s + 1, 2]))
    for _ in range(sum(secs)):
        calls += rec()
    calls += ["rcount", "seek:%d" % rng.choice([0, 1, 2])]
    return ",".join("%d.%s" % (ri, c) for c in calls[:90])


def misuse_script(rng, nreaders, maxlen=40):
    """non-conforming: any call in any order on any reader, markers/namerefs shared"""
    calls = []
    names = ["header", "seek", "qcount", "rcount", "rcountin", "q", "qref", "theq", "theqref", "skipq", "marker", "href",
             "hdrH", "hdrI", "skipd", "bytes", "data", "opt", "optorskip", "bytesat", "dataat", "nrefat", "nreq", "nrname", "nrlabels"]
    for r in range(nreaders):
        if rng.random() < 0.8:
            calls.append("%d.header" % r)
    n = rng.randrange(3, maxlen)
    for _ in range(n):
        ri = rng.randrange(nreaders)
        c = rng.choice(names + ["marker", "hdrI", "bytesat", "dataat", "nrefat", "skipd", "bytes", "data"])
        k = rng.choice(["L", "0", "1", "2", "3", str(rng.randrange(0, 8))])
        if c in ("seek", "rcountin"):
            c += ":%d" % rng.choice([0, 1, 2])
        elif c in ("skipd", "bytes", "opt", "optorskip", "bytesat", "nrefat"):
            c += ":" + k
        elif c in ("data", "dataat"):
            c += ":%d:%s" % (rng.choice(TYPED), k)
        elif c == "nreq":
            c += ":%d:%d" % (rng.randrange(0, 6), rng.randrange(0, 6))
        elif c == "nrname":
            c += ":%s:%d" % (rng.choice("HI"), rng.randrange(0, 6))
        elif c == "nrlabels":
            c += ":%d" % rng.randrange(0, 6)
        calls.append("%d.%s" % (ri, c))
    return ",".join(calls)


def gen_scripts(rng, n, maxlen=60):
    out = []
    tags = {}
    for i in range(n):
        msg, ast, L, tag = gen_message(rng)
        if i % 10 == 7 and L and ast and len(L.marks) <= 14:
            sc = replay_script(rng, L, ast, 0)
            tag = tag + "+replay"
        else:
            sc = conforming_script(rng, L, ast, 0, maxlen)
        tags[tag] = tags.get(tag, 0) + 1
        out.append("s%d script 1 %s %s" % (i, hx(msg), sc))
    return out, tags


def gen_misuse(rng, n):
    out = []
    for i in range(n):
        k = rng.choice([1, 2, 2, 3])
        msgs = []
        for _ in range(k):
            m, ast, L, tag = gen_message(rng)
            if rng.random() < 0.3:
                m = m[:rng.randrange(0, len(m) + 1)]
            msgs.append(m)
        if rng.random() < 0.3:
            msgs[0] = msgs[0] + rbytes(rng, rng.choice([50, 120]))
        sc = misuse_script(rng, k)
        out.append("u%d script %d %s %s" % (i, k, " ".join(hx(m) for m in msgs), sc))
    return out


# ------------------------------------------------------------------------------- responses (C06/C07)
def lower(b):
    return bytes((c + 32) if 65 <= c <= 90 else c for c in b)


def name_key(labels):
    return tuple(lower(l) for l in labels)


def recase_labels(rng, labels):
    return [bytes((c ^ 0x20) if (65 <= c <= 90 or 97 <= c <= 122) and rng.random() < 0.4 else c for c in l) for l in labels]


def gen_response(rng):
    """a response AST built around a CNAME graph; returns (ast, D, gates) where gates describes which
    non-answer conditions were injected"""
    names = [[small_label(rng), b"example", b"com"], [b"www", b"example", b"com"], [b"cdn", b"net"], [b"a", b"b", b"c", b"net"], [],
             [small_label(rng)], [b"x-y", b"org"]]
    rng.shuffle(names)
    D = rng.choice(TYPED)
    qname = names[0]
    qclass = 1 if rng.random() < 0.85 else 3
    chain_len = rng.choice([0, 0, 1, 1, 2, 3, 5])
    chain = names[:chain_len + 1]
    answers = []
    mode = rng.random()
    def rec(owner, ty, cl=None, rd=None, ttl=None):
        return {"owner": recase_labels(rng, owner), "type": ty, "class": qclass if cl is None else cl,
                "ttl": rng.choice([0, 5, 60, 3600, 2 ** 31]) if ttl is None else ttl,
                "rdata": rd if rd is not None else rand_rdata(rng, ty, names)}
    for i in range(chain_len):
        answers.append(rec(chain[i], 5, rd=("Name", 5, recase_labels(rng, chain[i + 1]))))
    final = chain[-1]
    if mode < 0.7:
        for _ in range(rng.choice([1, 1, 2, 3])):
            answers.append(rec(final, D))
    # decoys: wrong class, wrong type, wrong owner, extra CNAMEs (forks), loops
    for _ in range(rng.choice([0, 0, 1, 2, 3])):
        k = rng.random()
        if k < 0.2:
            answers.append(rec(final, D, cl=rng.choice([3, 4, 255])))
        elif k < 0.4:
            answers.append(rec(final, rng.choice([t for t in TYPED if t != D])))
        elif k < 0.6:
            answers.append(rec(rng.choice(names), D))
        elif k < 0.8:
            a, b = rng.choice(chain), rng.choice(names)
            answers.append(rec(a, 5, rd=("Name", 5, recase_labels(rng, b))))
        else:
            a = rng.choice(names)
            answers.append(rec(a, 5, rd=("Name", 5, recase_labels(rng, a))))
    if rng.random() < 0.5:
        rng.shuffle(answers)
    auth = [rec(rng.choice(names), rng.choice([2, 6, D])) for _ in range(rng.choice([0, 0, 1, 2]))]
    addl = [rec(rng.choice(names), rng.choice([1, 28, D])) for _ in range(rng.choice([0, 0, 1, 2]))]
    gates = {}
    flags = 0x8000 | rng.choice([0, 0x0100, 0x0180, 0x0400])
    if rng.random() < 0.12:
        flags &= 0x7FFF
        gates["query"] = True
    if rng.random() < 0.12:
        flags |= 0x0200
        gates["tc"] = True
    rc4 = 0
    if rng.random() < 0.15:
        rc4 = rng.choice([1, 2, 3, 5, 15])
    flags |= rc4
    ext = None
    if rng.random() < 0.5:
        ext = rng.choice([0, 0, 0, 1, 16, 255])
        opt = {"owner": [], "type": 41, "class": rng.choice([512, 4096]), "ttl": (ext << 24) | (rng.choice([0, 1]) << 16) | rng.choice([0, 0x8000]),
               "rdata": ("Opt", rbytes(rng, rng.choice([0, 0, 4])))}
        where = rng.random()
        if where < 0.7:
            addl.insert(rng.randrange(len(addl) + 1), opt)
        elif where < 0.85:
            auth.insert(rng.randrange(len(auth) + 1), opt)
        else:
            addl.append(opt)
            addl.append(dict(opt, ttl=(rng.choice([0, 1, 255]) << 24)))   # a second OPT: only the first counts
    nq = 1
    if rng.random() < 0.1:
        nq = rng.choice([0, 2, 3])
        gates["qd"] = nq
    qs = [(recase_labels(rng, qname), D, qclass)] + [(rand_name(rng), 1, 1) for _ in range(max(0, nq - 1))]
    qs = qs[:nq] if nq else []
    ast = {"id": rng.getrandbits(16), "flags": flags, "qd": qs, "secs": [answers, auth, addl]}
    return ast, D, qname, qclass


def expected_rrset(ast, D, qname, qclass):
    """code-blind oracle: the gates in order, then the CNAME-chain resolver over the AST"""
    flags = ast["flags"]
    if not flags & 0x8000:
        return "err:BadMessageType(false)"
    if flags & 0x0200:
        return "err:MessageTruncated"
    if len(ast["qd"]) != 1:
        return "err:BadQuestionsCount(%d)" % len(ast["qd"])
    rc = flags & 0xF
    for r in ast["secs"][1] + ast["secs"][2]:
        if r["type"] == 41:
            rc |= ((r["ttl"] >> 24) & 0xFF) << 4
            break
    if rc != 0:
        return "err:BadResponseCode(%d)" % rc
    answers = list(ast["secs"][0])
    name = list(ast["qd"][0][0])
    qclass = ast["qd"][0][2]
    while True:
        hits = [r for r in answers if name_key(r["owner"]) == name_key(name) and r["class"] == qclass and r["type"] == D]
        if hits:
            return ("ok", name, qclass, min(r["ttl"] for r in hits), hits)
        cn = [r for r in answers if name_key(r["owner"]) == name_key(name) and r["class"] == qclass and r["type"] == 5]
        if not cn:
            return "err:NoAnswer"
        answers.remove(cn[0])
        name = list(cn[0]["rdata"][2])


def fmt_rdata(rd):
    k = rd[0]
    nm = lambda ls: (b"".join(l + b"." for l in ls) or b".").hex()
    if k == "A":
        return "D(A,%d)" % rd[1]
    if k == "Aaaa":
        return "D(Aaaa,%d)" % rd[1]
    if k == "Name":
        return "D(Name,%d,%s)" % (rd[1], nm(rd[2]))
    if k == "Hinfo":
        return "D(Hinfo,%s,%s)" % (hx(rd[1]), hx(rd[2]))
    if k == "Wks":
        return "D(Wks,%d,%d,%s)" % (rd[1], rd[2], hx(rd[3]))
    if k == "Minfo":
        return "D(Minfo,%s,%s)" % (nm(rd[1]), nm(rd[2]))
    if k == "Mx":
        return "D(Mx,%d,%s)" % (rd[1], nm(rd[2]))
    if k == "Null":
        return "D(Null,%s)" % hx(rd[1])
    if k == "Soa":
        return "D(Soa,%s,%s,%d,%d,%d,%d,%d)" % ((nm(rd[1]), nm(rd[2])) + tuple(rd[3:8]))
    if k == "Txt":
        return "D(Txt,%s)" % hx(b"".join(rd[1]))
    return "?"
