#!/usr/bin/env python3
"""check.py — decide one property: regenerate leaves from /repo, re-check the Coq theorems in the
property's closure, rebuild model driver and harness, run the correspondence streams, triage,
write evidence, print the verdict.   usage: check.py <ID> [--tier quick|thorough] [--replay FILE]"""
import sys, os, json, time, random, argparse, re, hashlib, glob

sys.path.insert(0, os.path.dirname(__file__))
import common as C
import streams as S
from props import PROPS

REPLAY_DIR = os.path.join(C.VERIF, "replays")


def load_known():
    p = os.path.join(C.VERIF, "known_findings.json")
    if os.path.exists(p):
        return json.load(open(p))
    return {"known": [], "fixed": []}


def coq_stage(pid, prop, ev, problems, tier="quick"):
    """translate + make the property's closure + pins/assumptions. Fills ev['coverage']."""
    cov = ev["coverage"]
    ok_t, misses, trep = C.translate()
    areas = set(prop["areas"])
    rel_misses = [m for m in misses if m["area"] in areas]
    cov["translator"] = {"areas": {a: trep.get("areas", {}).get(a) for a in sorted(areas)},
                         "misses": rel_misses}
    for m in rel_misses:
        problems.append({"kind": "tie", "what": "extraction point %s/%s not located: %s" % (m["area"], m["point"], m["error"])})
    thms = prop["theorems"]
    targets = ["theories/Properties/%s.vo" % pid] if thms else []
    obligations = 0
    discharged = 0
    if targets:
        t0 = time.time()
        ok, out = C.coq_make(targets)
        cov["coq_make_s"] = round(time.time() - t0, 1)
        if not ok:
            e = C.coq_first_error(out)
            changed = C.changed_areas(misses)
            if changed and not (changed & areas):
                # the closure shares library files (the query writer's model and its proofs serve as "the encoder" of the
                # round-trip theorems) with other properties; every leaf of THIS property's own areas is byte-identical to
                # the clean tree's, where its theorems were checked: a break caused by foreign leaves says nothing about it
                cov["foreign_break"] = ("closure not re-checked: leaf areas %s, outside this property's own areas, changed or no "
                                        "longer translate (first error: %s)" % (sorted(changed), json.dumps(e)[:200]))
            else:
                problems.append({"kind": "proof", "what": "Coq build of the closure of Properties/%s.v failed" % pid, "detail": e})
    # pins: statements + Print Assumptions, compiled fresh on every run
    pin = os.path.join(C.COQ, "pins", "%s.v" % pid)
    if thms and os.path.exists(pin) and not any(p["kind"] == "proof" for p in problems) and "foreign_break" not in cov:
        rc, out = C.run(["coqc", "-noglob", "-Q", "theories", "RsdnsModel", "pins/%s.v" % pid], cwd=C.COQ, timeout=600)
        for f in glob.glob(os.path.join(C.COQ, "pins", "%s.vo*" % pid)) + glob.glob(os.path.join(C.COQ, "pins", ".%s.aux" % pid)):
            try:
                os.remove(f)
            except OSError:
                pass
        if rc != 0:
            problems.append({"kind": "proof", "what": "pinned statements of %s no longer check" % pid, "detail": C.coq_first_error(out)})
        else:
            closed = out.count("Closed under the global context")
            axioms = re.findall(r"Axioms:\n((?:.+\n)+)", out)
            cov["print_assumptions"] = "all %d theorems: Closed under the global context" % closed if not axioms else "AXIOMS: " + " | ".join(a.strip()[:300] for a in axioms)
            if axioms or closed < len(thms):
                problems.append({"kind": "proof", "what": "Print Assumptions: %d closed of %d; axioms: %s" % (closed, len(thms), axioms)})
            else:
                discharged = len(thms)
    obligations = len(thms)
    # ---- secondary closure: theorems of this property about a model that also needs leaves OUTSIDE the property's own
    # areas.  If such a foreign leaf changed or stopped translating (and none of the property's own did), a failure
    # there says nothing about this property: it is noted, not reported.
    sec = prop.get("secondary")
    if sec and not any(p["kind"] == "proof" for p in problems) and "foreign_break" not in cov:
        sthms = sec["theorems"]
        obligations += len(sthms)
        changed = C.changed_areas(misses)
        foreign_only = bool(changed) and not (changed & areas)
        sprob = None
        ok, out = C.coq_make(["theories/Properties/%s.vo" % sec["file"]])
        if not ok:
            sprob = {"kind": "proof", "what": "Coq build of the closure of Properties/%s.v failed" % sec["file"], "detail": C.coq_first_error(out)}
        else:
            rc, out = C.run(["coqc", "-noglob", "-Q", "theories", "RsdnsModel", "pins/%s.v" % sec["file"]], cwd=C.COQ, timeout=600)
            for f in glob.glob(os.path.join(C.COQ, "pins", "%s.vo*" % sec["file"])) + glob.glob(os.path.join(C.COQ, "pins", ".%s.aux" % sec["file"])):
                try:
                    os.remove(f)
                except OSError:
                    pass
            closed = out.count("Closed under the global context")
            if rc != 0 or "Axioms:" in out or closed < len(sthms):
                sprob = {"kind": "proof", "what": "pinned statements of %s no longer check (%d closed of %d)" % (sec["file"], closed, len(sthms)), "detail": C.coq_first_error(out)}
            else:
                discharged += len(sthms)
        if sprob and foreign_only:
            cov["secondary"] = "Properties/%s.v not re-checked: leaf areas %s, outside this property's own areas, changed or no longer translate (%s)" % (sec["file"], sorted(changed), sprob["what"])
        elif sprob:
            problems.append(sprob)
        else:
            cov["secondary"] = "Properties/%s.v: %d theorems re-checked" % (sec["file"], len(sthms))
        thms = thms + sthms
    # forbidden constructs anywhere in the development
    rc, out = C.run(["grep", "-rnE", r"\b(Admitted|admit|Axiom|Parameter|Conjecture|Abort All)\b|Unset Guard|bypass_check|type-in-type|Admit Obligations", "--include=*.v", "theories", "pins"], cwd=C.COQ)
    bad = [l for l in out.splitlines() if l.strip() and not re.search(r"\(\*.*(Admitted|admit|Axiom|Parameter).*\*\)", l)]
    if bad:
        problems.append({"kind": "proof", "what": "forbidden construct in development", "detail": bad[:5]})
    # thorough tier: re-check the compiled closure with the independent checker and list its axioms
    if tier == "thorough" and thms and not any(p["kind"] == "proof" for p in problems) and "foreign_break" not in cov:
        t0 = time.time()
        libs = ["RsdnsModel.Properties.%s" % pid]
        if prop.get("secondary") and str(cov.get("secondary", "")).endswith("re-checked"):
            libs.append("RsdnsModel.Properties.%s" % prop["secondary"]["file"])
        rc, out = C.run(["coqchk", "-o", "-silent", "-Q", "theories", "RsdnsModel"] + libs, cwd=C.COQ, timeout=1800)
        m = re.search(r"\* Axioms:\s*(.*?)\n\s*\n", out, re.S)
        ax = m.group(1).strip() if m else "?"
        cov["coqchk"] = {"exit": rc, "axioms": ax[:400], "seconds": round(time.time() - t0, 1)}
        if rc != 0 or ax != "<none>":
            problems.append({"kind": "proof", "what": "coqchk -o on Properties/%s: exit %d, axioms: %s" % (pid, rc, ax[:200]), "detail": out[-400:]})
    cov["obligations"] = obligations
    cov["discharged"] = discharged
    cov["theorems"] = thms
    return cov


def main():
    ap = argparse.ArgumentParser()
    ap.add_argument("pid")
    ap.add_argument("--tier", default=os.environ.get("VERIF_TIER", "quick"))
    ap.add_argument("--replay", default=None)
    a = ap.parse_args()
    pid = a.pid
    tier = a.tier if a.tier in ("quick", "thorough") else "quick"
    seed = int(os.environ.get("VERIF_SEED", "20260930"))
    prop = PROPS[pid]
    t0 = time.time()
    os.makedirs(REPLAY_DIR, exist_ok=True)
    if not a.replay:
        for f in glob.glob(os.path.join(REPLAY_DIR, "%s-*.json" % pid)):
            try:
                os.remove(f)
            except OSError:
                pass
    os.makedirs(os.path.join(C.VERIF, "evidence"), exist_ok=True)
    ev = {"property_id": pid, "tier": tier, "seed": seed, "level": prop["level"],
          "coverage": {"checker_cmd": "make -C coq theories/Properties/%s.vo && coqc pins/%s.v (coqc 8.16.1; Print Assumptions per theorem)" % (pid, pid),
                       "trusted_base": prop.get("trusted_base", S.TRUSTED_BASE)},
          "assumptions": prop.get("assumptions", []), "wall_s": 0.0, "violations": 0}
    problems = []   # broken proof obligations / ties (not yet violations)
    failures = []   # concrete inputs on which the property fails on the implementation
    known_hits = []
    with C.Lock():
        coq_stage(pid, prop, ev, problems, tier)
        okd, dmsg = C.build_driver()
        if not okd and C.driver_valid_for(prop["areas"]) and not any(p["kind"] == "proof" for p in problems):
            # some OTHER area of the model no longer translates/compiles; this property's own leaves are byte-identical
            # to the ones the last good driver was extracted from and its own closure has just been re-checked
            ev["coverage"]["driver"] = "not rebuilt (%s): the previous driver is the model of this property's areas, which are unchanged" % dmsg[:200]
        elif not okd:
            problems.append({"kind": "tie", "what": "model driver could not be rebuilt (%s); using last good driver" % dmsg[:300]})
            if not os.path.exists(C.DRIVER_BIN):
                print("ERROR: no model driver available: " + dmsg)
                return 2
        okh, hooks, hmsg = C.build_harness(release=False)
        if not okh:
            print("ERROR: harness does not build against /repo:\n" + hmsg)
            return 2
        if any(getattr(S.STREAMS[x], "release_too", False) for x in prop["streams"]):
            okr, _, rmsg = C.build_harness(release=True)
            if not okr:
                problems.append({"kind": "tie", "what": "release harness build failed: " + rmsg[-300:]})
        ev["coverage"]["hooks_enabled"] = hooks
    # ---- streams
    known = load_known()
    cov = ev["coverage"]
    cov["streams"] = {}
    total_eval = 0
    distinct = 0
    samples = []
    for sname in prop["streams"]:
        st = S.STREAMS[sname]
        rng = random.Random(seed * 1000003 + hash_str(sname))
        if a.replay:
            cases = S.load_replay_cases(a.replay, sname)
        else:
            cases = S.corpus_cases(sname) + st.generate(rng, tier, pid)
        r = st.run(cases, pid, tier)
        total_eval += r["evaluations"]
        distinct += r["distinct_nontrivial"]
        samples += r["samples"][:3]
        cov["streams"][sname] = {k: r[k] for k in r if k not in ("failures", "disagreements", "samples")}
        for f in r["failures"]:
            hit = S.match_known(known, pid, f)
            if hit:
                known_hits.append((hit, f))
            else:
                failures.append(f)
        for d in r["disagreements"][:20]:
            problems.append({"kind": "correspondence", "what": "stream %s: model and implementation differ" % sname, "detail": d})
    cov["evaluations"] = total_eval
    cov["distinct_nontrivial"] = distinct
    cov["rule"] = prop.get("rule", "see streams.*.rule")
    cov["samples"] = samples or ["(no stream cases)"]
    cov["disagreements_checked"] = len([p for p in problems if p["kind"] == "correspondence"])
    cov["problems"] = problems[:10]
    cov["explanation"] = prop.get("explanation", "")
    seen = set()
    for hit, f in known_hits:
        if hit["id"] not in seen:
            seen.add(hit["id"])
            print("KNOWN-FINDING: property=%s %s" % (pid, hit["what"]))
    rc = 0
    if failures:
        f = S.shrink(failures[0])
        path = os.path.join(REPLAY_DIR, "%s-%d.json" % (pid, seed))
        json.dump({"property": pid, "kind": "failing-input", "stream": f["stream"], "case": f["case"],
                   "observed": f["observed"], "expected": f["expected"], "why": f["why"],
                   "problems": problems[:5],
                   "replay_cmd": "./check %s --replay %s" % (pid, path)}, open(path, "w"), indent=1)
        print("VIOLATION property=%s replay=%s" % (pid, path))
        ev["violations"] = len(failures)
        rc = 1
    elif problems:
        path = os.path.join(REPLAY_DIR, "%s-%d-broken.json" % (pid, seed))
        json.dump({"property": pid, "kind": "broken-obligation", "problems": problems,
                   "note": "the listed theorem/tie/correspondence no longer checks; the search over %d cases found no input on which the implementation fails the property" % total_eval},
                  open(path, "w"), indent=1)
        print("VIOLATION property=%s replay=%s no-failing-input-found" % (pid, path))
        ev["violations"] = 1
        rc = 1
    ev["wall_s"] = round(time.time() - t0, 2)
    json.dump(ev, open(os.path.join(C.VERIF, "evidence", "%s.json" % pid), "w"), indent=1)
    C.log("%s %s: %d cases, %d failures, %d problems, %.1fs" % (pid, tier, total_eval, len(failures), len(problems), ev["wall_s"]))
    return rc


def hash_str(s):
    return int(hashlib.sha256(s.encode()).hexdigest()[:8], 16)


if __name__ == "__main__":
    sys.exit(main())
