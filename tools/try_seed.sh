#!/bin/sh
# try_seed.sh <patch.diff> <ID>... : apply a seeded change to /repo, run the checks, undo it.
# The evidence files of the clean tree are preserved (a run on a seeded tree must not be committed).
P="$1"; shift
git -C /repo apply "$P" || { echo "patch does not apply"; exit 2; }
for id in "$@"; do
  cp /verif/evidence/$id.json /var/tmp/evidence_$id.bak 2>/dev/null
  /verif/check "$id" > /var/tmp/try_seed.out 2>/var/tmp/try_seed.err; rc=$?
  echo "== $id exit=$rc: $(grep -E 'VIOLATION|KNOWN|ERROR' /var/tmp/try_seed.out | head -3)"
  cp /var/tmp/evidence_$id.bak /verif/evidence/$id.json 2>/dev/null
done
git -C /repo checkout -- . ; python3 /verif/tools/translate.py >/dev/null
