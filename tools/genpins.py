#!/usr/bin/env python3
"""Regenerate coq/pins/Cxx.v from coq/theories/Properties/Cxx.v: for every property theorem a
`Check (name : <full statement>).` (so a weakened restatement no longer type-checks against the
pinned text once committed) and a `Print Assumptions name.`.  Run after editing a Properties file;
the generated pins are committed and compiled fresh by every check."""
import re, sys, os, glob
ROOT = os.path.join(os.path.dirname(os.path.abspath(__file__)), "..", "coq")

def gen(pid):
    src = open(os.path.join(ROOT, "theories", "Properties", pid + ".v")).read()
    # strip comments (nesting-aware)
    out, depth, i = [], 0, 0
    while i < len(src):
        if src.startswith("(*", i): depth += 1; i += 2; continue
        if src.startswith("*)", i) and depth: depth -= 1; i += 2; continue
        if not depth: out.append(src[i])
        i += 1
    body = "".join(out)
    head = [l for l in body.splitlines() if re.match(r"\s*(From .* Require Import|Require Import|Import |Open Scope|Local Open Scope)", l)]
    thms = re.findall(r"^(?:Theorem|Example|Lemma)\s+(C\d\d_\w+)\s*:\s*(.*?)\.\s*\nProof", body, re.S | re.M)
    lines = head + ["From RsdnsModel.Properties Require Import %s." % pid]
    # keep Open Scope after the imports
    lines = [l for l in lines if "Open Scope" not in l] + [l for l in head if "Open Scope" in l]
    for name, stmt in thms:
        lines.append("Check (%s : %s)." % (name, stmt.strip()))
    lines.append(" ".join("Print Assumptions %s." % n for n, _ in thms))
    open(os.path.join(ROOT, "pins", pid + ".v"), "w").write("\n".join(lines) + "\n")
    return len(thms)

if __name__ == "__main__":
    ids = sys.argv[1:] or sorted(os.path.basename(f)[:-2] for f in glob.glob(os.path.join(ROOT, "theories", "Properties", "C*.v")))  # incl. secondary files such as C11_time
    for pid in ids:
        print(pid, gen(pid))
