#!/bin/sh
# seed_matrix.sh [seed ...]: run, for every kept seed (or the named ones), the check of the property it
# breaks (meta.json `check_with`, default: the seed's own property); one line per seed.
# Applies each patch to /repo, runs the check, undoes it (tools/try_seed.sh). About 1 minute per seed.
cd /verif
seeds="$@"
[ -z "$seeds" ] && seeds=$(ls /verif/seeded | grep -E '^C[0-9]+-[0-9]+$')
for seed in $seeds; do
  d=/verif/seeded/$seed
  id=$(python3 -c "import json; m=json.load(open('$d/meta.json')); print(m.get('check_with') or '$seed'.split('-')[0])")
  rm -f /verif/replays/$id-*.json
  r=$(tools/try_seed.sh $d/patch.diff $id 2>&1 | tail -1)
  why=$(python3 - <<PY
import json,glob
out=[]
for p in sorted(glob.glob('/verif/replays/$id-*.json')):
    j=json.load(open(p)); out.append("%s: %s" % (j.get('kind'), (j.get('why') or json.dumps(j.get('problems'))[:300])[:300]))
print(" | ".join(out))
PY
)
  echo "$seed :: $r :: $why"
done
