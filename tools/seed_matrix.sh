#!/bin/sh
# seed_matrix.sh: run, for every kept seed, the check of the property it breaks; one line per seed
cd /verif
for d in /verif/seeded/*/; do
  seed=$(basename $d); id=$(python3 -c "import json,sys; m=json.load(open('$d/meta.json')); print(m.get('check_with') or '$(basename $d)'.split('-')[0])")
  r=$(tools/try_seed.sh $d/patch.diff $id 2>&1 | tail -1)
  why=$(python3 - <<PY
import json,glob
out=[]
for p in sorted(glob.glob('/verif/replays/$id-*.json')):
    j=json.load(open(p)); out.append("%s: %s" % (j.get('kind'), (j.get('why') or json.dumps(j.get('problems'))[:200])[:200]))
print(" | ".join(out))
PY
)
  echo "$seed :: $r :: $why"
done
