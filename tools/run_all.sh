#!/bin/sh
# run every claimed check once on the current tree (quick tier); prints one line per check
cd /verif
for id in $(python3 -c "import json; print(' '.join(c['property_id'] for c in json.load(open('MANIFEST.json'))['checks']))"); do
  out=$(./check $id --tier ${1:-quick} 2>&1 | tail -2 | tr '\n' ' ')
  echo "$id: $out"
done
