#!/usr/bin/env python3
"""mkmanifest.py — write MANIFEST.json from tools/props.py (claimed checks) and properties.jsonl."""
import json, os, sys
sys.path.insert(0, os.path.dirname(__file__))
from props import PROPS, TEXT

V = os.path.join(os.path.dirname(__file__), "..")
props = [json.loads(l) for l in open(os.path.join(V, "properties.jsonl"))]
hooks = json.load(open(os.path.join(V, "hooks.json")))
man = {
    "version": 1,
    "setup_cmd": "./setup.sh",
    "hooks": hooks,
    "engines": [
        {"name": "rocq-model", "path": "coq/", "serves_properties": sorted(k for k in PROPS if PROPS[k].get("claimed", True)),
         "kind_free_text": "Coq 8.16.1 development: hand-written Gallina model + leaves regenerated from the Rust source by tools/translate.py + code-blind specs + proofs; extracted to OCaml (ExtrOcamlBasic) for the correspondence"},
        {"name": "harness", "path": "harness/", "serves_properties": sorted(k for k in PROPS if PROPS[k].get("claimed", True)),
         "kind_free_text": "Rust harness running the real crate (debug build with ub_checks/overflow checks, release build with guard pages) on the same cases as the extracted model"},
    ],
    "checks": [],
    "not_applicable": [],
    "notes": "see DESIGN.md; ./check <ID> [--tier quick|thorough] [--replay FILE]; known_findings.json lists fixed/known defects",
}
for p in props:
    pid = p["id"]
    if pid in PROPS and PROPS[pid].get("claimed", True):
        t = TEXT.get(pid, {})
        man["checks"].append({
            "property_id": pid,
            "quick_cmd": "./check %s --tier quick" % pid,
            "thorough_cmd": "./check %s --tier thorough" % pid,
            "evidence_file": "evidence/%s.json" % pid,
            "replay_cmd_template": "./check %s --replay {path}" % pid,
            "engine": "rocq-model",
            "level_claimed": {"category": PROPS[pid]["level"], "text": t.get("text", ""), "design_ref": "DESIGN.md section 5 " + pid},
            "level_note": t.get("note", "trusted: Coq kernel, tools/translate.py, ExtrOcamlBasic extraction + ocaml/driver.ml glue, the Rust harness; the hand-written model skeleton is tied to the crate by differential sampling"),
            "technique": t.get("technique", "machine-checked proof in Coq (Rocq) + leaves translated from source + extracted-model differential testing with spec oracle"),
        })
    else:
        man["not_applicable"].append({"property_id": pid, "reason": PROPS.get(pid, {}).get("na_reason", "not yet built in this revision (work in progress, see DESIGN.md section 11)")})
json.dump(man, open(os.path.join(V, "MANIFEST.json"), "w"), indent=1)
print("claimed:", [c["property_id"] for c in man["checks"]])
