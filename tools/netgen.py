"""netgen.py — scenarios for the scripted loopback server (harness/src/netlab.rs) and the
code-blind expectation of what a correct DNS client does with them."""
from gen import hx, small_label, gen_text

CLIENTS = ["std", "tokio", "asyncstd", "smol"]
JUNK = ["empty", "short", "hdr11", "rand", "wrongid", "swapid", "name1", "wtype", "wclass", "qd0", "qd2", "truncq", "hdronly", "selfptr",
        "tcname1", "tcwrongid", "tcqd0"]
MATCHING = ["resp", "Jcase", "Jquery"]          # accepted by the RFC filter (id + single question, case-insensitive)


def qname_wire(name):
    if name == b".":
        return b"\x00"
    return b"".join(bytes([len(l)]) + l for l in name.rstrip(b".").split(b".")) + b"\x00"


def expected_query(name, qtype, qclass, rd, edns, buflen):
    """RFC 1035/6891 bytes of the query without the id (id masked to 0000)"""
    body = b"\x00\x00" + (b"\x01\x00" if rd else b"\x00\x00") + b"\x00\x01\x00\x00\x00\x00" + (b"\x00\x01" if edns else b"\x00\x00")
    body += qname_wire(name) + qtype.to_bytes(2, "big") + qclass.to_bytes(2, "big")
    if edns:
        ver, payload = edns
        body += b"\x00\x00\x29" + min(payload, buflen).to_bytes(2, "big") + b"\x00" + bytes([ver]) + b"\x00\x00\x00\x00"
    return body


def response_bytes(name, qtype, qclass, tc=False, tcp=False, pad=0, case=False):
    qn = qname_wire(name)
    if case:
        qn = bytes((c ^ 0x20) if (65 <= c <= 90 or 97 <= c <= 122) else c for c in qn)
    r = b"\x00\x00" + bytes([0x81 | (2 if tc else 0), 0x80]) + b"\x00\x01\x00\x01\x00\x00\x00\x00" + qn + qtype.to_bytes(2, "big") + qclass.to_bytes(2, "big")
    r += b"\xc0\x0c"
    cl = qclass.to_bytes(2, "big")
    if qtype == 28:
        r += b"\x00\x1c" + cl + b"\x00\x00\x0e\x10\x00\x10" + (b"\x20" if tcp else b"\x10") * 16
    elif qtype == 16:
        r += b"\x00\x10" + cl + b"\x00\x00\x0e\x10\x00\x04\x03" + (b"tcp" if tcp else b"udp")
    else:
        r += b"\x00\x01" + cl + b"\x00\x00\x0e\x10\x00\x04" + (b"\x05\x06\x07\x08" if tcp else b"\x01\x02\x03\x04")
    r += bytes(i % 251 for i in range(pad))
    return r


class Query:
    def __init__(self, kind, name, qtype, qclass, udp, tcp, drop=None):
        self.kind, self.name, self.qtype, self.qclass, self.udp, self.tcp, self.drop = kind, name, qtype, qclass, udp, tcp, drop

    def text(self):
        udp = "/".join(",".join("%d:%s" % it for it in att) or "-" for att in self.udp) or "-"
        return "%s;%s;%d;%d;%s;%s;%d:%s" % (self.kind, hx(self.name), self.qtype, self.qclass, "-" if self.drop is None else str(self.drop), udp, self.tcp[0], self.tcp[1])


class Scenario:
    def __init__(self, client, strategy, qt, life, edns, rd, buf, queries):
        self.client, self.strategy, self.qt, self.life, self.edns, self.rd, self.buf, self.queries = client, strategy, qt, life, edns, rd, buf, queries

    def line(self, cid):
        return "%s net %s %s %s %d %s %d %d %s" % (cid, self.client, self.strategy, "-" if self.qt is None else str(self.qt), self.life,
                                                  "-" if not self.edns else "%d:%d" % self.edns, 1 if self.rd else 0, self.buf,
                                                  "|".join(q.text() for q in self.queries))


def valid_name(name):
    if name == b".":
        return True
    if not name:
        return False
    ls = name[:-1].split(b".") if name.endswith(b".") else name.split(b".")
    ok = lambda l: 1 <= len(l) <= 63 and all(chr(c).isalnum() and c < 128 or c in (45, 95) for c in l) and l[0] != 45 and l[-1] != 45
    return bool(ls) and all(ok(l) for l in ls) and sum(len(l) + 1 for l in ls) + 1 <= 255


def tcp_expect(sc, q, t_start, buf=None):
    """(result-kind, payload, finish-time) of a TCP exchange started at t_start"""
    adelay, mode = q.tcp
    buf = sc.buf if buf is None else buf
    p = mode.split(":")
    body = response_bytes(q.name, q.qtype, q.qclass, tcp=True)
    t = t_start + adelay
    life = sc.life
    if p[0] in ("full", "trail"):
        return ("ok", body, t)
    if p[0] == "zero":
        return ("ok", b"", t)
    if p[0] == "pad":
        body = response_bytes(q.name, q.qtype, q.qclass, tcp=True, pad=int(p[1]))
        return (("ok", body, t) if len(body) <= buf else ("err:BufferTooShort(%d)" % len(body), None, t))
    if p[0] == "split":
        gap = int(p[1])
        ncuts = len([c for c in p[2].split(".") if c]) if len(p) > 2 else 0
        return ("ok", body, t + gap * ncuts)
    if p[0] == "short":
        n = int(p[1])
        return ("ok", body, t) if n >= 2 + len(body) else ("err:IoError(UnexpectedEof)", None, t)
    if p[0] == "over":
        n = int(p[1])
        if n > buf:
            return ("err:BufferTooShort(%d)" % n, None, t)
        return ("ok", (body + b"\xab" * n)[:n], t)
    if p[0] == "stall":
        n = int(p[1])
        return ("ok", body, t) if n >= 2 + len(body) else ("err:Timeout", None, life)
    if p[0] == "drip":
        gap = int(p[1])
        total = t + gap * (len(body) + 1)
        return ("ok", body, total) if total < life else ("err:Timeout", None, life)
    return ("?", None, t)


def expect_query(sc, q):
    """what a correct client returns for q on a fresh client: dict(kind, payload, t, sends, tcp)"""
    if not valid_name(q.name):
        return {"kind": "err:name", "sends": 0, "tcp": 0, "t": 0}
    if q.kind == "raw" and sc.buf < 512:
        return {"kind": "err:BufferTooShort(512)", "sends": 0, "tcp": 0, "t": 0}
    life = sc.life
    buf = sc.buf if q.kind == "raw" else 65535
    if sc.strategy.endswith("+noudp") and not sc.strategy.startswith("tcp"):
        return {"kind": "err:IoError(ConnectionRefused)", "sends": None, "tcp": 0, "t": 0}
    if sc.strategy.startswith("tcp"):
        k, body, t = tcp_expect(sc, q, 0, buf)
        if t >= life and k == "ok":
            k, body, t = "err:Timeout", None, life
        return {"kind": k, "payload": body, "t": min(t, life), "sends": 0, "tcp": 1}
    # UDP: transmissions at i*qt while before the lifetime
    sends = []
    i = 0
    while True:
        t = i * sc.qt if sc.qt is not None else 0
        if t >= life or (sc.qt is None and i > 0):
            break
        sends.append(t)
        i += 1
    arrivals = []
    for i, ts in enumerate(sends):
        for (d, what) in (q.udp[i] if i < len(q.udp) else []):
            arrivals.append((ts + d, what, i))
    arrivals.sort(key=lambda x: x[0])
    acc = None
    for (ta, what, i) in arrivals:
        if ta >= life:
            break
        if what in ("resp", "resptc", "resp2", "resplie", "Jcase", "Jquery") or what.startswith("big"):
            acc = (ta, what)
            break
        if what.startswith("X") and spec_accept(bytes.fromhex(what[1:])[:buf], b"\x00\x00", q.name, q.qtype, q.qclass) is not None:
            acc = (ta, what)                     # a checker-made datagram (id field = XOR delta 0000) that the RFC filter accepts
            break
    if acc is None:
        return {"kind": "err:Timeout", "sends": len(sends), "tcp": 0, "t": life}
    ta, what = acc
    nsent = len([s for s in sends if s <= ta])
    xd = bytes.fromhex(what[1:])[:buf] if what.startswith("X") else None
    if xd is not None and (int.from_bytes(xd[2:4], "big") & 0x0200) and sc.strategy == "udp":
        k, body, t = tcp_expect(sc, q, ta, buf)
        if t >= life and k == "ok":
            k, body, t = "err:Timeout", None, life
        return {"kind": k, "payload": body, "t": min(t, life), "sends": nsent, "tcp": 1}
    if xd is not None:
        return {"kind": "ok", "payload": xd, "t": ta, "sends": nsent, "tcp": 0, "what": what}
    if what == "resptc" and sc.strategy == "udp":
        k, body, t = tcp_expect(sc, q, ta, buf)
        if t >= life and k == "ok":
            k, body, t = "err:Timeout", None, life
        return {"kind": k, "payload": body, "t": min(t, life), "sends": nsent, "tcp": 1}
    if what == "resp":
        body = response_bytes(q.name, q.qtype, q.qclass)
    elif what in ("resp2", "resplie"):
        body = bytearray(response_bytes(q.name, q.qtype, q.qclass))
        qe = 12 + len(qname_wire(q.name)) + 4
        if what == "resp2":
            body += body[qe:]
        body[7] = 2
        body = bytes(body)
    elif what == "resptc":
        body = response_bytes(q.name, q.qtype, q.qclass, tc=True)
    elif what == "Jcase":
        body = response_bytes(q.name, q.qtype, q.qclass, case=True)
    elif what == "Jquery":
        body = None   # the echoed query: checked against what was sent
    else:
        body = response_bytes(q.name, q.qtype, q.qclass, pad=int(what[3:]))[:buf]
    return {"kind": "ok", "payload": body, "t": ta, "sends": nsent, "tcp": 0, "echo": what == "Jquery", "what": what}


# ---------------------------------------------------------------- code-blind datagram filter (RFC 1035 4.1.1/4.1.2/4.1.4)
def _label_ok(l):
    return 1 <= len(l) <= 63 and all((48 <= c <= 57) or (65 <= c <= 90) or (97 <= c <= 122) or c in (45, 95) for c in l) and l[0] != 45 and l[-1] != 45


def expand_name(msg, p):
    """labels and resume offset of the name at p, or None if it has no legal expansion"""
    labels, q0, hops, resume = [], None, 0, None
    while True:
        if p >= len(msg):
            return None
        v = msg[p]
        if v == 0:
            break
        if v < 64:
            if p + 1 + v > len(msg):
                return None
            labels.append(msg[p + 1:p + 1 + v])
            p += 1 + v
        elif v >= 192:
            if p + 1 >= len(msg):
                return None
            tgt = (v - 192) * 256 + msg[p + 1]
            q = p if q0 is None else q0
            if tgt >= q or hops >= 32:
                return None
            if q0 is None:
                q0, resume = p, p + 2
            hops += 1
            p = tgt
        else:
            return None
    if resume is None:
        resume = p + 1
    if not all(_label_ok(l) for l in labels) or sum(len(l) + 1 for l in labels) + 1 > 255:
        return None
    return labels, resume


def spec_accept(d, qid, name, qtype, qclass):
    """does datagram d answer the query (qid, name, qtype, qclass)?  -> flags word or None"""
    if len(d) < 12 or d[:2] != qid or d[4:6] != b"\x00\x01":
        return None
    e = expand_name(d, 12)
    if e is None:
        return None
    labels, r = e
    if r + 4 > len(d) or d[r:r + 2] != qtype.to_bytes(2, "big") or d[r + 2:r + 4] != qclass.to_bytes(2, "big"):
        return None
    asked = [] if name == b"." else name.rstrip(b".").split(b".")
    if [l.lower() for l in labels] != [l.lower() for l in asked]:
        return None
    return int.from_bytes(d[2:4], "big")


def gen_xdatagram(rng, name, qtype, qclass, buf):
    """a datagram near the genuine response, id field = XOR delta to the query id (0000 = same id)"""
    d = bytearray(response_bytes(name, qtype, qclass, tc=rng.random() < 0.3, case=rng.random() < 0.3))
    qn = len(qname_wire(name))
    for _ in range(rng.choice([0, 0, 1, 1, 2, 3])):
        m = rng.randrange(14)
        if len(d) < 12 + qn + 4 and m not in (7, 11):
            continue                                                       # already cut short by an earlier mutation
        if m == 0:
            d[rng.randrange(2)] ^= 1 << rng.randrange(8)                 # id
        elif m == 1:
            d[4:6] = rng.choice([b"\x00\x00", b"\x00\x02", b"\x01\x00", b"\x01\x01", b"\xff\xff"])
        elif m == 2 and qn > 2:
            i = 12 + rng.randrange(qn - 1)                                # a name octet (length or letter)
            d[i] ^= rng.choice([0x20, 0x01, 0x40, 0x80])
        elif m == 3:
            i = 12 + qn + rng.randrange(4)                                # type / class
            d[i] ^= 1 << rng.randrange(8)
        elif m == 4:
            del d[rng.choice([0, 1, 5, 11, 12, 12 + qn - 1, 12 + qn, 12 + qn + 1, 12 + qn + 3, 12 + qn + 4, rng.randrange(len(d) + 1)]):]
        elif m == 5:
            d[2] ^= rng.choice([0x80, 0x02, 0x78, 0x04])                  # QR / TC / opcode / AA
            d[3] ^= rng.choice([0, 0x0f, 0x80])
        elif m == 6:
            d[6:12] = bytes(rng.randrange(256) for _ in range(6))        # other counts
        elif m == 7:
            d += bytes(rng.randrange(256) for _ in range(rng.choice([1, 30, buf - len(d) if buf > len(d) else 1, buf, 2000])))
        elif m == 8 and len(d) >= 12 + qn:
            # the question name written as first label + pointer into the header (offset 4..11)
            tgt = rng.choice([4, 5, 6, 10, 11, 12, 13, 0])
            first = bytes(d[12:13 + d[12]]) if d[12] < 64 else b""
            d[12:12 + qn] = first + bytes([0xc0, tgt])
        elif m == 9 and len(d) >= 12 + qn:
            # make ANCOUNT.. octets spell the tail of the name is not possible; use root via pointer to a zero octet
            d[12:12 + qn] = bytes([0xc0, rng.choice([6, 8, 10])])
        elif m == 10 and len(d) >= 12 + qn + 4:
            d[12 + qn:12 + qn] = d[12:12 + qn + 4]                        # the question twice
            if rng.random() < 0.5:
                d[4:6] = b"\x00\x02"
        elif m == 11:
            d = bytearray(bytes(rng.randrange(256) for _ in range(rng.choice([0, 1, 12, 17, 40]))))
        elif m == 12 and len(d) >= 12 + qn:
            d[12 + qn - 1:12 + qn] = b"\x01x\x00"                          # one more label
        elif m == 13 and len(d) >= 12 + qn and qn > 3:
            d[12:12 + qn] = d[12 + 1 + d[12]:12 + qn]                       # first label dropped
    return bytes(d)


def gen_tcp_raw(rng, buf):
    """segments of a TCP answer stream: prefix + body (+ trailing), with lying prefixes and early ends"""
    n = rng.choice([0, 1, 2, 12, 40, 300, buf - 1, buf, buf, rng.randrange(0, 700)])
    body = bytes(rng.randrange(256) for _ in range(n))
    announce = n
    r = rng.random()
    if r < 0.2:
        announce = rng.choice([n + 1, n + 2, buf + 1, buf + 2, 65535, max(0, n - 1), max(0, n - 5)])
    stream = announce.to_bytes(2, "big") + body
    if rng.random() < 0.25:
        stream += bytes(rng.randrange(256) for _ in range(rng.choice([1, 2, 9, 100])))
    if rng.random() < 0.2:
        stream = stream[:rng.choice([0, 1, 2, 3, len(stream) // 2, max(0, len(stream) - 1)])]
    cuts = sorted(set(rng.randrange(1, len(stream)) for _ in range(rng.choice([0, 0, 1, 2, 3, 5])))) if len(stream) > 1 else []
    segs, a = [], 0
    for c in cuts + [len(stream)]:
        if c > a:
            segs.append(stream[a:c])
            a = c
    return segs


def rand_name(rng):
    return b".".join(small_label(rng) for _ in range(rng.choice([1, 2, 3])))


def gen_scenario(rng, focus, client=None, variant=0):
    client = client or rng.choice(CLIENTS)
    qt, life = 300, 1050
    strategy = "udp"
    edns = None if rng.random() < 0.5 else (rng.choice([0, 1]), rng.choice([512, 1232, 4096, 65535]))
    rd = rng.random() < 0.5
    buf = rng.choice([512, 512, 1232, 4096])
    name = rand_name(rng)
    qtype = rng.choice([1, 1, 28, 16])
    if focus in ("xmodel", "strategy", "tcpframe", "udpfilter") and rng.random() < 0.3:
        qtype = rng.choice([252, 251, 255, 41, 0, 65535, 250, 249, 6, 2, rng.randrange(65536)])   # AXFR IXFR ANY OPT ... 
    mk = lambda **kw: Query(kw.get("kind", "raw"), kw.get("name", name), kw.get("qtype", qtype), kw.get("qclass", 1),
                            kw.get("udp", [[(0, "resp")]]), kw.get("tcp", (0, "full")), kw.get("drop"))
    if focus == "wire":
        strategy = rng.choice(["udp", "tcp", "udp"])
        nm = name
        r = rng.random()
        if r < 0.25:
            nm, _ = gen_text(rng)
            try:
                nm.decode()
            except UnicodeDecodeError:
                nm = name
        if variant < 4 or (r >= 0.25 and r < 0.45):
            # names at the size limit: wire length 250..256 (text 248..254 + optional root dot);
            # the first four scenarios of every client are the two largest legal names, over UDP and TCP, EDNS on
            last = [60, 61, 60, 61][variant] if variant < 4 else rng.choice([56, 58, 59, 60, 61, 61, 62])
            if variant < 4:
                strategy = ["udp", "udp", "tcp", "tcp"][variant]
            lab = lambda n: bytes(rng.choice(b"abcdefghijklmnopqrstuvwxyz0123456789") for _ in range(n))
            nm = b".".join([lab(63), lab(63), lab(63), lab(last)]) + (b"." if rng.random() < 0.5 else b"")
            if variant < 4 or rng.random() < 0.7:
                edns = (0, rng.choice([512, 1232, 4096]))
            if variant < 4:
                buf = rng.choice([512, 1232, 4096])
        qs = [mk(name=nm, qtype=rng.choice([1, 28, 255, 0, 65535, rng.randrange(65536)]), qclass=rng.choice([1, 3, 255, 0, 65535]))]
        if variant >= 4 and rng.random() < 0.2:
            buf = rng.choice([100, 511, 512, 513])
        elif variant >= 4 and rng.random() < 0.2:
            buf = rng.choice([65535, 65536, 65537, 70000])
    elif focus == "udpfilter":
        items = []
        t = 0
        for _ in range(rng.choice([0, 1, 2, 3, 6, 12])):
            items.append((t, "J" + rng.choice(JUNK)))
            t += 8
        final = rng.choice(["resp", "resp", "Jcase", "Jquery", "none"])
        if final != "none":
            items.append((t + 10, final))
        for _ in range(rng.choice([0, 0, 2])):
            t += 10
            items.append((t + 12, "J" + rng.choice(JUNK)))
        if variant % 6 == 5 and final != "none":
            # the genuine response is LONGER than the payload size the query advertised (512 without EDNS) but fits the
            # caller's buffer: the caller gets all of it (what is handed over is exactly the accepted datagram)
            edns = rng.choice([None, (0, 512), (0, 1232)])
            buf = 4096
            adv = 512 if edns is None else edns[1]
            blen = len(response_bytes(name, qtype, 1))
            items = [it for it in items if it[1] != final] + [(t + 30, "big%d" % (adv + rng.choice([1, 1, 2, 100, 700]) - blen))]
            items.sort(key=lambda x: x[0])
        qs = [mk(udp=[items])]
    elif focus == "strategy" and rng.random() < 0.15:
        strategy = rng.choice(["udp", "notcp", "notcp", "tcp"]) + "+noudp"
        qs = [mk(udp=[[(10, "resp")]], tcp=(0, "full"))]
    elif focus == "strategy":
        strategy = rng.choice(["udp", "tcp", "notcp"])
        pre = [(8 * i, "J" + rng.choice(JUNK)) for i in range(rng.choice([0, 0, 2, 4]))]
        fin = rng.choice(["resp", "resptc", "resptc"])
        if variant % 6 == 4:
            # a TRUNCATED answer whose response code is not NOERROR (NXDOMAIN, SERVFAIL, REFUSED, FORMERR, a
            # reserved code): truncation is truncation — TCP under the default strategy, returned as is under notcp
            strategy = rng.choice(["udp", "udp", "notcp"])
            d = bytearray(response_bytes(name, qtype, 1, tc=True))
            d[3] = (d[3] & 0xf0) | rng.choice([1, 2, 3, 5, 11, 15])
            fin = "X" + hx(bytes(d))
        if variant % 6 == 2:
            # an UNtruncated answer that fills the caller's buffer exactly (or is one octet shorter, or is
            # clipped by the receive call): it is an answer like any other — no TCP connection
            strategy = rng.choice(["udp", "udp", "notcp"])
            blen = len(response_bytes(name, qtype, 1))
            fin = "big%d" % (buf - blen + rng.choice([0, 0, 0, -1, 9]))
        qs = [mk(udp=[pre + [(8 * len(pre) + 10, fin)]], tcp=(0, rng.choice(["full", "split:5:1.3.9", "trail:9"])))]
    elif focus == "tcpframe":
        strategy = "tcp"
        blen = len(response_bytes(name, qtype, 1, tcp=True))
        r = rng.random()
        if variant < 2:
            # fixed: a silent gap longer than query_timeout (300 ms) but well inside the lifetime, right after the
            # prefix (variant 0) and in the middle of the body (variant 1), for every client
            mode = "split:450:%d" % (2 if variant == 0 else 2 + blen // 2)
        elif r < 0.3:
            cuts = sorted(set(rng.randrange(1, blen + 2) for _ in range(rng.choice([1, 2, 3, 6]))))
            mode = "split:%d:%s" % (rng.choice([3, 8]), ".".join(map(str, cuts)))
        elif r < 0.5:
            mode = "short:%d" % rng.choice([0, 1, 2, 3, blen // 2, blen, blen + 1, blen + 2])
        elif r < 0.65:
            mode = "over:%d" % rng.choice([buf - 1, buf, buf + 1, 65535, 4096, 513])
        elif r < 0.75:
            mode = "pad:%d" % rng.choice([0, 1, buf - blen - 1, buf - blen, buf - blen + 1, 300])
        elif r < 0.85:
            mode = "trail:%d" % rng.choice([1, 7, 600])
        elif r < 0.9:
            mode = "zero"
        elif r < 0.95:
            # a silent gap longer than query_timeout (300 ms) but well inside the lifetime, after the prefix or mid-body
            mode = "split:450:%d" % rng.choice([1, 2, 3, blen // 2, blen + 1])
        else:
            mode = "full"
        qs = [mk(tcp=(rng.choice([0, 0, 40]), mode))]
        if variant % 8 == 3:
            # caller buffers beyond 65535 octets: every announced length fits (exactly 65536: any response; beyond:
            # a response longer than the buffer length modulo 65536)
            if rng.random() < 0.6:
                buf = 65536
                if mode.startswith(("over", "pad")):
                    mode = "full"
            else:
                buf = rng.choice([66000, 70000])
                mode = "pad:%d" % rng.choice([4500, 6000])
            qs = [mk(tcp=(rng.choice([0, 0, 40]), mode))]
    elif focus == "xmodel":
        strategy = rng.choice(["udp", "udp", "notcp", "tcp"])
        qt, life = None, 600
        buf = rng.choice([512, 600, 1232])
        edns = None
        qclass = rng.choice([1, 1, 3])
        items = []
        k = rng.choice([0, 1, 2, 3, 4])
        for j in range(k):
            items.append((40 * j, "X" + hx(gen_xdatagram(rng, name, qtype, qclass, buf))))
        if rng.random() < 0.7:
            items.append((40 * k, "X" + hx(response_bytes(name, qtype, qclass, tc=rng.random() < 0.4))))
        segs = gen_tcp_raw(rng, buf)
        qs = [mk(qclass=qclass, udp=[items], tcp=(0, "raw:4:" + (".".join(hx(x) for x in segs) if segs else "-")))]
    elif focus == "timing":
        # a fixed catalogue of timing patterns, each exercised by every client (index = variant)
        qt = 300
        jk = lambda: "J" + rng.choice(JUNK)
        burst = [(d, jk()) for d in range(270, 330, 1)]
        spread = [(d, jk()) for d in range(0, 290, 25)]
        pats = [
            ("silence", "udp", 300, [], (0, "full")),
            ("silence-noretry", "udp", None, [], (0, "full")),
            ("answer-after-1", "udp", 300, [[], [(20, "resp")]], (0, "full")),
            ("answer-after-2", "udp", 300, [[], [], [(20, "resp")]], (0, "full")),
            ("answer-after-3", "udp", 300, [[], [], [], [(20, "resp")]], (0, "full")),
            ("late-answer-noretry", "udp", None, [[(700, "resp")]], (0, "full")),
            ("boundary-burst", "udp", 300, [burst, [(120, "resp")]], (0, "full")),
            ("junk-then-answer", "udp", 300, [spread, spread, [(30, "resp")]], (0, "full")),
            ("junk-forever", "udp", 300, [spread] * 5, (0, "full")),
            ("tc-then-tcp-stall", "udp", 300, [[(20, "resptc")]], (0, "stall:2")),
            ("tcp-stall-0", "tcp", 300, [], (0, "stall:0")),
            ("tcp-stall-prefix", "tcp", 300, [], (0, "stall:2")),
            ("tcp-late-prefix-stall", "tcp", 300, [], (600, "stall:2")),
            ("tcp-late-prefix-stall-5", "tcp", 300, [], (500, "stall:7")),
            ("tcp-drip-60", "tcp", 300, [], (0, "drip:60")),
            ("tcp-drip-15", "tcp", 300, [], (0, "drip:15")),
            ("retry-then-tc-then-tcp-stall-0", "udp", 300, [[], [], [(20, "resptc")]], (0, "stall:0")),
            ("retry-then-tc-then-tcp-stall-1", "udp", 300, [[], [(20, "resptc")]], (0, "stall:1")),
            ("retry-then-tc-then-tcp-stall-body", "udp", 300, [[], [], [(20, "resptc")]], (0, "stall:9")),
            ("retry-then-tc-then-slow-accept", "udp", 300, [[], [], [(20, "resptc")]], (250, "full")),
            ("tcp-late-first-byte-stall", "tcp", 300, [], (700, "stall:1")),
            ("tcp-pause-after-prefix", "tcp", 300, [], (0, "split:450:2")),
            ("tcp-pause-mid-body", "tcp", 300, [], (0, "split:450:12")),
            ("tc-then-tcp-pause-after-prefix", "udp", 300, [[(20, "resptc")]], (0, "split:450:2")),
        ]
        nm_, strategy, qt, udp_, tcp_ = pats[variant % len(pats)]
        qs = [mk(udp=udp_, tcp=tcp_)]
    elif focus == "history" and variant % 5 == 1:
        # the SAME question asked again on the same client / buffer: the later query first receives
        # datagrams that carry its id but end before the question is complete (header only, clipped
        # question, 11 octets, empty) — the bytes an earlier response left in the reused buffer
        # behind them spell exactly the missing part, and must not be parsed as part of them
        nm = rand_name(rng)
        ty = rng.choice([1, 28, 16])
        kinds = [rng.choice(["raw", "rr%d" % ty]) for _ in range(3)]
        clip = lambda: [(6 + 5 * j, "J" + k) for j, k in enumerate(rng.sample(["hdronly", "truncq", "hdr11", "short", "empty"], rng.choice([1, 2, 3])))]
        qs = [mk(kind=kinds[0], name=nm, qtype=ty, udp=[[(15, "resp")]]),
              mk(kind=kinds[1], name=nm, qtype=ty, udp=[clip() + [(40, "resp")]]),
              mk(kind=kinds[2], name=nm, qtype=ty, udp=[clip()] if rng.random() < 0.4 else [clip() + [(40, "resp")]])]
        qt, life = 250, 600
        buf = rng.choice([512, 1232])
    elif focus == "history" and variant % 5 == 2:
        # typed queries whose record-set extraction REJECTS the accepted response (announces more records than it
        # carries: EndOfBuffer; or a truncated answer under the UDP-only strategy: MessageTruncated), each followed by
        # typed queries that are answered properly: the failed extraction must leave the client as good as new
        ty = rng.choice([1, 28, 16])
        bad = lambda: mk(kind="rr%d" % ty, name=small_label(rng), qtype=ty, udp=[[(12, "resplie")]])
        good = lambda: mk(kind="rr%d" % ty, name=rand_name(rng), qtype=ty, udp=[[(12, "resp")]])
        qs = [good(), bad(), good(), bad(), good(), mk(kind="raw", name=rand_name(rng), qtype=ty, udp=[[(12, "resp")]])][rng.choice([0, 1]):]
        qt, life = 250, 600
        buf = 1232
    elif focus == "history" and rng.random() < 0.25:
        # a longer response first, then a shorter one that announces more records than it carries:
        # stale bytes of the first must not be parsed as part of the second
        nm1 = rand_name(rng) + b"." + rand_name(rng)
        nm2 = small_label(rng)
        ty = rng.choice([1, 28])
        qs = [mk(kind="rr%d" % ty, name=nm1, qtype=ty, udp=[[(15, "resp2")]]),
              mk(kind="rr%d" % ty, name=nm2, qtype=ty, udp=[[(15, "resplie")]]),
              mk(kind="raw", name=nm2, qtype=ty, udp=[[(15, "resplie")]])]
        qt, life = 250, 600
        buf = 1232
    else:  # history
        qs = []
        n = rng.choice([2, 3, 4, 6])
        for k in range(n):
            nm = rand_name(rng)
            r = rng.random()
            kind = "raw" if rng.random() < 0.5 else "rr%d" % rng.choice([1, 28, 16])
            qt_k = int(kind[2:]) if kind != "raw" else rng.choice([1, 28, 16])
            late = [(5, "late%d" % rng.randrange(0, k))] if k > 0 and rng.random() < 0.6 else []
            if r < 0.45:
                q = mk(kind=kind, name=nm, qtype=qt_k, udp=[late + [(25, "resp")]])
            elif r < 0.6:
                q = mk(kind=kind, name=nm, qtype=qt_k, udp=[late])                       # times out
            elif r < 0.7:
                bad = rng.choice([b"a..b", b"-a", b"", b"a b"])
                q = mk(kind=kind, name=bad, qtype=qt_k)
            elif r < 0.8:
                q = mk(kind=kind, name=nm, qtype=qt_k, udp=[late + [(20, "resptc")]], tcp=(0, rng.choice(["over:65535", "short:5", "full"])))
            elif r < 0.9:
                q = mk(kind=kind, name=nm, qtype=qt_k, udp=[late + [(10, "Jtruncq"), (30, "big%d" % rng.choice([40, 200]))]])
            else:
                q = mk(kind=kind, name=nm, qtype=qt_k, udp=[[(400, "resp")]], drop=rng.choice([60, 150]) if client != "std" else None)
            qs.append(q)
        qt, life = 250, 600
        buf = 1232
    return Scenario(client, strategy, qt, life, edns, rd, buf, qs)


# ---------------------------------------------------------------- the timed model (Timed.v) on a scenario
def timed_model_line(cid, sc, q):
    """the `tq` line for the extracted timed machine (one raw query, start 0, exact timers), or None if the
    scenario uses something the translation below does not cover"""
    if "+" in sc.strategy or q.drop is not None:
        return None
    try:
        q.name.decode()
    except UnicodeDecodeError:
        return None
    life = sc.life
    sends, i = [], 0
    while True:
        t = i * sc.qt if sc.qt is not None else 0
        if t >= life or (sc.qt is None and i > 0):
            break
        sends.append(t)
        i += 1
    arrivals = []
    for i, ts in enumerate(sends):
        for (d, what) in (q.udp[i] if i < len(q.udp) else []):
            if what == "resp":
                b = response_bytes(q.name, q.qtype, q.qclass)
            elif what == "resptc":
                b = response_bytes(q.name, q.qtype, q.qclass, tc=True)
            elif what.startswith("J") and what[1:] in JUNK:
                b = b"\x00\x01\x81\x80" + bytes(8)          # any datagram the filter rejects: another id
            else:
                return None
            arrivals.append((ts + d, b))
    arrivals.sort(key=lambda x: x[0])
    # when the TCP exchange starts: at 0 (tcp-only) or when the truncated answer is accepted
    t_conn = 0
    if not sc.strategy.startswith("tcp"):
        t_conn = None
        for (ta, b) in arrivals:
            if ta >= life:
                break
            if b[:2] == b"\x00\x00":
                t_conn = ta if (b[2] & 2) else None
                break
    adelay, mode = q.tcp
    p = mode.split(":")
    body = response_bytes(q.name, q.qtype, q.qclass, tcp=True)
    wire = len(body).to_bytes(2, "big") + body
    segs, eof = [], "-"
    if t_conn is not None:
        t0 = t_conn + adelay
        if p[0] == "full":
            segs, eof = [(t0, wire)], str(t0)
        elif p[0] == "stall":
            n = int(p[1])
            segs = [(t0, wire[:n])] if n > 0 else []
        elif p[0] in ("drip", "split"):
            gap = int(p[1])
            cuts = list(range(1, len(wire))) if p[0] == "drip" else sorted(set(int(c) for c in p[2].split(".") if c))
            pos, t = 0, t0
            for c in cuts + [len(wire)]:
                c = min(c, len(wire))
                if c <= pos:
                    continue
                segs.append((t, wire[pos:c]))
                pos = c
                if pos < len(wire):
                    t += gap
            eof = str(t)
        else:
            return None
    arr = ",".join("%d:%s" % (t, b.hex()) for (t, b) in arrivals) or "-"
    sg = ",".join("%d:%s" % (t, b.hex()) for (t, b) in segs if b) or "-"
    return "%s tc %s %s 0 %s %d %d 0 %d %s %d %s 0 %s %s %d %s %s" % (
        cid, sc.client, sc.strategy, hx(q.name) or "-", q.qtype, q.qclass, life, "-" if sc.qt is None else str(sc.qt),
        sc.buf if q.kind == "raw" else 65535, arr, sg, eof, 1 if sc.rd else 0, "-" if not sc.edns else "%d:%d" % sc.edns, q.kind)


def timed_model_vs_oracle(sc, q, model, wire_only=False):
    """None if the extracted timed machine and the code-blind expectation agree on this scenario"""
    import re
    m0 = re.match(r"S=([0-9,]*) W=(\S+) TW=(\S+) (EV=.*)$", model)
    if not m0:
        return "model: " + model[:80]
    m = re.match(r"S=([0-9,]*) EV=([UT]*) T=(\d+) R=(.*)$", "S=%s %s" % (m0.group(1), m0.group(4)))
    if not m:
        return "model: " + model[:80]
    ms = [int(x) for x in m.group(1).split(",") if x]
    e = expect_query(sc, q)
    if e["kind"] in ("err:name", "err:BufferTooShort(512)"):
        # refused before anything is sent
        if ms or m.group(2) or m0.group(2) != "-" or m0.group(3) != "-" or not m.group(4).startswith("err:"):
            return "refusal: model %s, expectation: %s and nothing sent" % (model[:80], e["kind"])
        if e["kind"] == "err:name" and not (m.group(4).startswith("err:DomainName") or (q.kind == "raw" and sc.buf < 512 and m.group(4) == "err:BufferTooShort(512)")):
            return "refusal: model %s, expectation %s" % (m.group(4)[:60], e["kind"])
        if e["kind"] != "err:name" and m.group(4) != e["kind"]:
            return "refusal: model %s, expectation %s" % (m.group(4)[:60], e["kind"])
        return None
    want_q = expected_query(q.name, q.qtype, q.qclass, sc.rd, sc.edns, sc.buf if q.kind == "raw" else 65535)
    if ms and m0.group(2) != want_q.hex():
        return "datagram on the wire: model %s, RFC layout %s" % (m0.group(2)[:120], want_q.hex()[:120])
    if m0.group(3) != "-" and m0.group(3) != (len(want_q).to_bytes(2, "big") + want_q).hex():
        return "TCP bytes written: model %s, RFC layout %s" % (m0.group(3)[:120], (len(want_q).to_bytes(2, "big") + want_q).hex()[:120])
    if wire_only:
        return None          # netwire / C11: refusals and the bytes on the wire only; the rest is C13-C15's business
    if (m0.group(3) != "-") != bool(e["tcp"]):
        return "TCP exchange: model wrote %s, expectation %d connection(s)" % (m0.group(3)[:20], e["tcp"])
    want_s = [i * sc.qt if sc.qt is not None else 0 for i in range(e["sends"] or 0)]
    if ms != want_s:
        return "transmissions: model %s, expectation %s" % (ms, want_s)
    ev = ("U" if not sc.strategy.startswith("tcp") else "") + ("T" if e["tcp"] else "")
    if m.group(2) != ev:
        return "exchanges: model %s, expectation %s" % (m.group(2), ev)
    if e["kind"] == "ok" and q.kind != "raw":
        if not (m.group(4).startswith("ok:RS") or m.group(4).startswith("err:")):
            return "typed result: model %s" % m.group(4)[:60]
    elif e["kind"] == "ok":
        want = "ok:%d:%s" % (len(e["payload"]), e["payload"].hex() or "-")
        if m.group(4).replace(":-", ":") != want.replace(":-", ":"):
            return "result: model %s, expectation %s" % (m.group(4)[:60], want[:60])
    elif m.group(4) != e["kind"]:
        return "result: model %s, expectation %s" % (m.group(4)[:60], e["kind"])
    if abs(int(m.group(3)) - e["t"]) > 0:
        return "end of the call: model at %s ms, expectation at %d ms" % (m.group(3), e["t"])
    return None


def gen_timed_random(rng, client):
    """random single-query timing scenarios for model-vs-expectation only (no network): arrivals on and around
    the attempt and lifetime boundaries, junk and answers in any order, TCP replies that trickle or stall"""
    qt = rng.choice([None, 100, 250, 300, 333, 500])
    life = rng.choice([300, 600, 1000, 1050, 1500]) + rng.choice([0, 0, 1, -1, 7])
    strategy = rng.choice(["udp", "udp", "udp", "notcp", "tcp"])
    name = rand_name(rng)
    qtype = rng.choice([1, 28, 16])
    nat = (life // qt + 1) if qt else 1
    edge = lambda base: max(0, base + rng.choice([-2, -1, 0, 1, 2]))
    udp = []
    answered = False
    for i in range(nat):
        items = []
        for _ in range(rng.choice([0, 0, 1, 2, 5])):
            d = rng.choice([rng.randrange(0, (qt or life) + 50), edge(qt or life), edge(max(0, life - i * (qt or 0)))])
            items.append((d, "J" + rng.choice(JUNK)))
        if not answered and rng.random() < 0.3:
            d = rng.choice([rng.randrange(0, (qt or life) + 50), edge(qt or life), edge(max(0, life - i * (qt or 0))), 0])
            items.append((d, rng.choice(["resp", "resp", "resptc"])))
            answered = True
        items.sort(key=lambda x: x[0])
        udp.append(items)
    body = response_bytes(name, qtype, 1, tcp=True)
    r = rng.random()
    if r < 0.3:
        mode = "full"
    elif r < 0.5:
        mode = "stall:%d" % rng.choice([0, 1, 2, 3, len(body) + 1, len(body) + 2])
    elif r < 0.75:
        mode = "drip:%d" % rng.choice([1, 5, 15, 40])
    else:
        cuts = sorted(set(rng.randrange(1, len(body) + 2) for _ in range(rng.choice([1, 2, 4]))))
        mode = "split:%d:%s" % (rng.choice([3, 50, 200, 450]), ".".join(map(str, cuts)))
    q = Query("raw", name, qtype, 1, udp, (rng.choice([0, 0, 40, 250, life - 1, life]), mode))
    return Scenario(client, strategy, qt, life, None, True, rng.choice([512, 1232]), [q])
