"""streams.py — correspondence streams: generator + both executions + comparison + property oracle.

A stream result is a dict with: evaluations, distinct_nontrivial, rule, samples, histogram,
disagreements (model != implementation: a broken tie, not yet a violation) and failures (inputs on
which the *implementation's* observable behaviour contradicts the code-blind specification: the
replay of a real violation)."""
import os, json, glob, re, hashlib
import common as C
import gen as G

TRUSTED_BASE = [
    "Coq 8.16.1 kernel (coqc); vm_compute used in finite-sweep proofs; no native_compute",
    "no axioms: every property theorem prints 'Closed under the global context'",
    "tools/translate.py (Rust expression -> Gallina leaf translator) for Gen*.v",
    "extraction with ExtrOcamlBasic only (bool/option/unit/list/prod/sumbool/sumor; andb/orb inlined) + ocaml/driver.ml glue",
    "hand-written model skeleton tied to the crate by differential execution only",
    "Rust harness (harness/), std/tokio/async-std/smol/arrayvec/OS sockets are observed, not modelled",
]


def parse_kv(s):
    """'RH=ok:.. RI=..' -> dict"""
    d = {}
    for part in s.split(" "):
        if "=" in part:
            k, v = part.split("=", 1)
            d[k] = v
    return d


def corpus_cases(sname):
    out = []
    for p in sorted(glob.glob(os.path.join(C.VERIF, "corpus", sname, "*.txt"))):
        base = os.path.basename(p)[:-4]
        for i, l in enumerate(open(p)):
            l = l.strip()
            if l and not l.startswith("#"):
                # corpus lines are `<op> <args>`; ids are assigned here
                out.append("k_%s_%d %s" % (base, i, l))
    return out


def load_replay_cases(path, sname):
    j = json.load(open(path))
    if j.get("stream") == sname and "case" in j:
        return ["r0 " + j["case"].split(" ", 1)[1]]
    return []


def match_known(known, pid, f):
    for k in known.get("known", []):
        if k["property"] == pid and k["stream"] == f["stream"] and re.search(k["pattern"], f["why"] + " | " + f["case"]):
            return k
    return None


def shrink(f):
    return f


class Stream:
    name = "?"
    rule = ""

    def generate(self, rng, tier, pid):
        raise NotImplementedError

    def oracle(self, line, impl, spec, pid):
        """returns None or a reason string"""
        return None

    def nontrivial(self, line, impl):
        return True

    def classify(self, line, impl):
        return "all"

    def run(self, cases, pid, tier):
        model, specs = run_model_with_spec(cases)
        impl = C.run_impl(cases)
        self._last_impl = impl
        dis = []
        fails = []
        rel_checked = 0
        if getattr(self, "release_too", False) and os.path.exists(C.HARNESS_BIN_REL):
            # release build: no overflow/debug-assert panics, no ub_checks; messages end at a guard page
            impl_r = C.run_impl(cases, release=True)
            for line in cases:
                cid = line.split(" ", 1)[0]
                m = model.get(cid, "MISSING")
                i = impl_r.get(cid, "MISSING")
                rel_checked += 1
                if i == "MISSING":
                    continue
                if i.startswith(("CRASH", "HANG")) or "B(OUTSIDE" in i:
                    fails.append({"stream": self.name, "case": line, "observed": "[release build] " + i[:600], "expected": m[:600],
                                  "why": ("release build: a call returned a slice outside the message" if "B(OUTSIDE" in i else
                                          "release build: implementation " + i[:60] + " (message ends at a PROT_NONE guard page)")})
                elif "PANIC" not in m and "UB" not in m and m != i:
                    dis.append({"case": line, "model": m[:400], "impl": "[release build] " + i[:400]})
        hist = {}
        seen = set()
        nontriv = 0
        samples = []
        missing = 0
        for line in cases:
            cid = line.split(" ", 1)[0]
            m = model.get(cid, "MISSING")
            i = impl.get(cid, "MISSING")
            body = line.split(" ", 1)[1]
            if i == "MISSING":
                # not run: the supervisor stops restarting workers after a few crashes/hangs
                missing += 1
                continue
            if m != i:
                dis.append({"case": line, "model": m[:400], "impl": i[:400]})
            why = self.oracle(line, i, specs.get(cid), pid)
            if why:
                fails.append({"stream": self.name, "case": line, "observed": i[:600], "expected": (specs.get(cid) or "")[:600], "why": why})
            k = self.classify(line, i)
            hist[k] = hist.get(k, 0) + 1
            h = hashlib.sha1(body.encode()).digest()
            if h not in seen:
                seen.add(h)
                if self.nontrivial(line, i):
                    nontriv += 1
                    if len(samples) < 4:
                        samples.append({"case": body[:300], "impl": i[:300]})
        extra = {"not_run_after_crashes": missing}
        if missing and not any(f["observed"].startswith(("CRASH", "HANG")) or "CRASH" in f["observed"] or "HANG" in f["observed"] for f in fails):
            dis.append({"case": "(%d cases)" % missing, "model": "-", "impl": "the harness produced no result for these cases"})
        if hasattr(self, "compared"):
            extra["calls_compared_with_abstract_machine"] = self.compared
            self.compared = 0
        return {**extra, "evaluations": len(cases), "distinct_nontrivial": nontriv, "rule": self.rule, "samples": samples,
                "histogram": hist, "disagreements": dis, "failures": fails,
                "model_impl_agree": len(cases) - len(dis), "release_build_cases": rel_checked}


def _big_stack():
    import resource
    try:
        resource.setrlimit(resource.RLIMIT_STACK, (resource.RLIM_INFINITY, resource.RLIM_INFINITY))
    except (ValueError, OSError):
        pass


def run_model_with_spec(cases):
    """driver prints R lines (model) and S lines (spec)"""
    import subprocess
    n = max(1, min(C.NCPU, (len(cases) + 49) // 50))
    shards = [cases[i::n] for i in range(n)]
    procs = []
    for sh in shards:
        p = subprocess.Popen([C.DRIVER_BIN], stdin=subprocess.PIPE, stdout=subprocess.PIPE, text=True,
                             preexec_fn=_big_stack)
        procs.append((p, sh))
    import threading
    outs = [None] * len(procs)

    def work(k):
        p, sh = procs[k]
        outs[k] = p.communicate("\n".join(sh) + "\n")[0]
    ts = [threading.Thread(target=work, args=(k,)) for k in range(len(procs))]
    for t in ts:
        t.start()
    for t in ts:
        t.join()
    model, spec = {}, {}
    for o in outs:
        for l in (o or "").splitlines():
            if l.startswith("R "):
                a = l.split(" ", 2)
                model[a[1]] = a[2] if len(a) > 2 else ""
            elif l.startswith("S "):
                a = l.split(" ", 2)
                spec[a[1]] = a[2] if len(a) > 2 else ""
    return model, spec


# ------------------------------------------------------------------------------------- names
class Names(Stream):
    name = "names"
    rule = ("wire names built from fragments with pointer graphs (plain, backward pointers, targets at first_ptr+{-4..5}, "
            "chains of depth 1..40, loops, names of wire length 250..258, boundary bytes in labels, reserved label types, "
            "truncation, random bytes, a few 5-20 KB messages); each consumed four ways (Name, InlineName, skip, label "
            "iterator) + TryFrom<&NameRef>.  Non-trivial: the walk gets past the first octet (a label or pointer is "
            "processed).  Distinct: by (message bytes, position).")

    def generate(self, rng, tier, pid):
        n = 6000 if tier == "quick" else 200000
        cases, self.tags = G.gen_names(rng, n)
        cases += G.gen_names_big(rng, 12 if tier == "quick" else 200)
        return cases

    def classify(self, line, impl):
        d = parse_kv(impl)
        rh = d.get("RH", impl)
        if rh.startswith("ok:"):
            return "accepted"
        m = re.match(r"err:([A-Za-z]+)", rh)
        return m.group(1) if m else rh[:20]

    def nontrivial(self, line, impl):
        d = parse_kv(impl)
        rh = d.get("RH", "")
        return not (rh.startswith("err:EndOfBuffer") and d.get("LB", "").startswith("[]"))

    def oracle(self, line, impl, spec, pid):
        if spec is None:
            return None
        if impl.startswith(("CRASH", "HANG", "PANIC", "MISSING")):
            return "implementation did not return a value or an error: " + impl[:80]
        if pid == "C01":
            return None      # C01 uses these pointer graphs as hostile input only: crash / hang / panic
        d = parse_kv(impl)
        sp = spec.split(" ")
        keys = ("RH", "RI", "SK", "TH", "TI")
        if sp[0] == "reject":
            for k in keys:
                if not d.get(k, "").startswith("err:"):
                    return "RFC expansion rejects the name (reason %s) but %s=%s" % (sp[1], k, d.get(k))
            if not re.search(r"\]err:", d.get("LB", "")):
                return "RFC expansion rejects the name (reason %s) but label iteration ended with %s" % (sp[1], d.get("LB"))
            return None
        # accept <resume> <valid> <wirelen> <text> [labels]
        resume, valid, wirelen, text, labels = sp[1], sp[2] == "1", int(sp[3]), sp[4], sp[5]
        if not valid:
            for k in keys:
                if not d.get(k, "").startswith("err:"):
                    return "a label violates the label rules but %s=%s" % (k, d.get(k))
            if not re.search(r"\]err:", d.get("LB", "")):
                return "a label violates the label rules but label iteration ended with %s" % d.get("LB")
            return None
        if d.get("SK") != "ok:" + resume:
            return "legal name: skip must resume at %s, got %s" % (resume, d.get("SK"))
        if d.get("LB") != labels + "none":
            return "legal name: label iteration must yield %s, got %s" % (labels, d.get("LB"))
        if wirelen <= 255:
            for k in ("RH", "RI"):
                if d.get(k) != "ok:%s:%s" % (text, resume):
                    return "legal name of %d octets: %s must be ok:%s:%s, got %s" % (wirelen, k, text, resume, d.get(k))
            for k in ("TH", "TI"):
                if d.get(k) != "ok:%s" % text:
                    return "legal name: %s must be ok:%s, got %s" % (k, text, d.get(k))
        else:
            for k in ("RH", "RI", "TH", "TI"):
                if not d.get(k, "").startswith("err:"):
                    return "name of %d octets (> 255) must be rejected, got %s=%s" % (wirelen, k, d.get(k))
        return None


STREAMS = {"names": Names()}


# ------------------------------------------------------------------------------- script streams
import gen_msg as GM

ABNORMAL = ("CRASH", "HANG")


def split_calls(line):
    """-> (nreaders, [msgs hex], [call strings])"""
    a = line.split(" ")
    n = int(a[2])
    msgs = a[3:3 + n]
    calls = a[3 + n].split(",") if len(a) > 3 + n else []
    return n, msgs, [c for c in calls if c]


class Scripts(Stream):
    """conforming scripts over generated/mutated/random messages (C01, C09, C20)"""
    name = "scripts"
    compared = 0
    release_too = True
    rule = ("message = random AST (0-3 questions, 0-12 records/section over the 17 typed formats + OPT + unknown types/classes, "
            "shared-suffix names) rendered with none/greedy/random compression, 45% with 1-2 targeted mutations (RDLENGTH, counts, "
            "pointer retarget, label bytes/lengths, truncation, trailing bytes), 12% random bytes; script = header, questions "
            "(question/question_ref/the_question/skip), header/data pairs (4 header kinds x skip/bytes/typed right+wrong type/opt, data "
            "call only if the header call succeeded), seeks/counts/random access/borrowed-name ops sprinkled anywhere, 1-2 passes; every tenth "
            "script replays a section (read it to its end, seek back to it, read it to its end again, seek on, read the rest). "
            "Non-trivial: at least one record header call succeeded. Distinct by (message, script).")

    def generate(self, rng, tier, pid):
        n = 3000 if tier == "quick" else 100000
        cases, self.tags = GM.gen_scripts(rng, n, 60 if tier == "quick" else 150)
        return cases

    def classify(self, line, impl):
        if impl.startswith(ABNORMAL):
            return impl[:12]
        last = impl.split(";")[-1]
        if "PANIC" in impl:
            return "panic"
        return "clean" if "err:" not in impl else "with-errors"

    def nontrivial(self, line, impl):
        return ";ok:M(" in impl or ";ok:HN(" in impl or ";ok:HR(" in impl

    def oracle(self, line, impl, spec, pid):
        if impl.startswith(ABNORMAL):
            return "conforming call sequence made the implementation " + impl[:40]
        if "PANIC" in impl:
            k = impl.split(";").index([x for x in impl.split(";") if "PANIC" in x][0])
            return "conforming call sequence panicked at call %d: %s" % (k, impl.split(";")[k])
        if "B(OUTSIDE" in impl:
            return "returned slice lies outside the message"
        if pid == "C09":
            return self.linear_oracle(line, impl, spec)
        return None

    def linear_oracle(self, line, impl, spec):
        """every item, error and count equals what the abstract linear-pass reader prescribes"""
        if not spec or spec == "nolinear":
            return None
        n, msgs, calls = split_calls(line)
        res = impl.split(";")
        exp = spec.split(";")
        self.compared = getattr(self, "compared", 0)
        last_off = -1
        for k, (e, got) in enumerate(zip(exp, res)):
            if e == "unspec":
                break
            if e in ("-", "hdr"):
                continue
            self.compared += 1
            call = calls[k] if k < len(calls) else "?"
            if e == "ok":
                if not got.startswith("ok"):
                    return "call %d (%s): the linear pass prescribes success, got %s" % (k, call, got[:80])
            elif e == "err":
                if not got.startswith("err:"):
                    return "call %d (%s): the item is malformed/truncated, got %s" % (k, call, got[:80])
            elif e == "done":
                if got != "err:ReaderDone":
                    return "call %d (%s): reader is exhausted or in error state, expected ReaderDone, got %s" % (k, call, got[:80])
            elif e.startswith("num("):
                if got != "ok:" + e[4:-1]:
                    return "call %d (%s): remaining count should be %s, got %s" % (k, call, e[4:-1], got[:40])
            elif e.startswith("unknown("):
                if got != "err:RecordsSectionOffsetUnknown(%s)" % e[8:-1]:
                    return "call %d (%s): offset of section %s is not known yet, got %s" % (k, call, e[8:-1], got[:80])
            elif e.startswith("badq("):
                if got != "err:BadQuestionsCount(%s)" % e[5:-1]:
                    return "call %d (%s): expected BadQuestionsCount(%s), got %s" % (k, call, e[5:-1], got[:80])
            elif e.startswith("item("):
                f = e[5:-1].split(",")
                op = call.split(".", 1)[1].lstrip("?").split(":")[0]
                if op in ("q", "theq", "qref", "theqref"):
                    m = re.match(r"ok:Q\([0-9a-f-]+,(\d+),(\d+)\)$", got) or re.match(r"ok:QR\(#\d+,(\d+),(\d+)\)$", got)
                    if not m or [m.group(1), m.group(2)] != [f[2], f[3]]:
                        return "call %d (%s): question should have type %s class %s, got %s" % (k, call, f[2], f[3], got[:80])
                else:
                    m = re.search(r"M\((\d+),(\d+),(\d+),(\d+),(\d+),(\d+),(\d+)\)", got)
                    if not got.startswith("ok") or not m or list(m.groups()) != f:
                        return "call %d (%s): the pass prescribes record M(%s), got %s" % (k, call, ",".join(f), got[:120])
        return None


class Misuse(Stream):
    """non-conforming scripts over several readers, markers and borrowed names exchanged (C17)"""
    name = "misuse"
    release_too = True
    rule = ("1-3 messages (generated/mutated/random, some truncated or extended) with one reader each; 3-40 arbitrary calls in any "
            "order on any reader, marker and borrowed-name indices drawn from the shared pools (markers of longer messages used on "
            "shorter ones). Debug build: std ub_checks abort on a violated get_unchecked precondition. "
            "Non-trivial: some call used a marker (…at/skip/bytes/data). Distinct by full case.")

    def generate(self, rng, tier, pid):
        return GM.gen_misuse(rng, 3000 if tier == "quick" else 120000)

    def classify(self, line, impl):
        if impl.startswith(ABNORMAL):
            return impl[:12]
        if "PANIC(debug_assert)" in impl:
            return "debug_assert"
        if "PANIC" in impl:
            return "panic-overflow"
        return "no-panic"

    def nontrivial(self, line, impl):
        return ":B(" in impl or ":D(" in impl or "err:EndOf" in impl

    def oracle(self, line, impl, spec, pid):
        if impl.startswith(ABNORMAL):
            return "safe calls made the implementation " + impl[:40] + " (abort = violated unsafe precondition)"
        if "B(OUTSIDE" in impl:
            return "a safe call returned a slice outside the message"
        if "PANIC(other" in impl:
            return "undocumented panic: " + [x for x in impl.split(";") if "PANIC" in x][0]
        return None


class Decode(Stream):
    """iterator API drain and from_msg for all 17 types on every kind of message (C01)"""
    name = "decode"
    release_too = True
    rule = ("same message generator as 'scripts'; each message drained through MessageIterator (new, question, questions(), records()) "
            "and through RecordSet::<D>::from_msg for a random D of the 17 + always A; a few 65535/65536/70000-byte messages. "
            "Non-trivial: the header parsed. Distinct by (op, message).")

    def generate(self, rng, tier, pid):
        n = 2500 if tier == "quick" else 80000
        out = []
        for i in range(n):
            m, ast, L, tag = GM.gen_message(rng)
            out.append("i%d iter %s" % (i, GM.hx(m)))
            out.append("f%d rrset %d %s" % (i, rng.choice(GM.TYPED), GM.hx(m)))
            if i % 4 == 0:
                out.append("g%d rrset 1 %s" % (i, GM.hx(m)))
        for j, size in enumerate([65535, 65536, 70000] if tier == "quick" else [65534, 65535, 65536, 65537, 70000, 100000]):
            ast = GM.rand_ast(rng)
            m, L = GM.render(rng, ast)
            m = m + bytes(size - len(m)) if len(m) < size else m[:size]
            out.append("ib%d iter %s" % (j, GM.hx(m)))
            out.append("fb%d rrset 1 %s" % (j, GM.hx(m)))
            out.append("sb%d script 1 %s 0.header,0.skipq,0.marker,0.?skipd:L,0.seek:2,0.rcount" % (j, GM.hx(m)))
        # buffers beyond 65535 octets whose LATER SECTIONS lie beyond offset 65535 (the iterator API has no length cap):
        # one question, a NULL/TXT answer of 60-65 kB, then authority and additional records behind it
        for j in range(4 if tier == "quick" else 24):
            big = rng.choice([65500, 65535, 65480 + j, 60000])
            rd = bytes(rng.randrange(256) for _ in range(64)) * (big // 64 + 1)
            ans = b"\x01a\x00" + b"\x00\x0a\x00\x01\x00\x00\x00\x3c" + big.to_bytes(2, "big") + rd[:big]
            arec = lambda n: b"\xc0\x0c\x00\x01\x00\x01\x00\x00\x00\x3c\x00\x04" + bytes([10, 0, 0, n])
            pre = [arec(9)] * rng.choice([0, 0, 1])
            ns = [arec(1)] * rng.choice([1, 2])
            ar = [arec(2)] * rng.choice([0, 1, 3])
            if j % 4 == 3:
                pre = [ans]              # two big answers: the second one starts beyond 65535 as well
            m = (b"\x12\x34\x81\x80\x00\x01" + (len(pre) + 1).to_bytes(2, "big") + len(ns).to_bytes(2, "big") + len(ar).to_bytes(2, "big")
                 + b"\x01a\x00\x00\x01\x00\x01" + b"".join(pre) + ans + b"".join(ns) + b"".join(ar))
            out.append("il%d iter %s" % (j, GM.hx(m)))
            out.append("fl%d rrset 1 %s" % (j, GM.hx(m)))
        return out

    def classify(self, line, impl):
        if impl.startswith(ABNORMAL):
            return impl[:12]
        op = line.split(" ")[1]
        if op == "rrset":
            return "rrset:" + impl.split("(")[0][:24]
        return op

    def nontrivial(self, line, impl):
        return impl.startswith("new=ok") or not impl.startswith(("err:EndOfBuffer", "new=err"))

    def oracle(self, line, impl, spec, pid):
        if impl.startswith(ABNORMAL) or "PANIC" in impl:
            return "decoding entry point made the implementation " + impl[:60]
        return None


class RandAcc(Stream):
    """marker-based random access from readers in different states must agree (C10)"""
    name = "randacc"
    rule = ("reader 0 makes a healthy marker/skip pass collecting all markers; reader 1 (same bytes) is driven by a conforming script "
            "biased to typed reads of the wrong type (so that it often fails inside an RDLENGTH window), seeks and over-reads; "
            "reader 2 is fresh; then for every marker (max 8) each reader calls record_data_bytes_at, record_data_at::<D> (right and a "
            "random type) and name_ref_at + decoding/label iteration of that name; results must be identical across the three readers. "
            "Non-trivial: reader 1 ended in the error state or was sought. Distinct by case.")

    AT = ("bytesat", "dataat", "nrefat", "nrname", "nrlabels")

    def generate(self, rng, tier, pid):
        n = 1500 if tier == "quick" else 50000
        out = []
        for i in range(n):
            m, ast, L, tag = GM.gen_message(rng)
            nrec = len(L.marks) if L else 3
            calls = ["0.header", "0.skipq"]
            for _ in range(nrec + 1):
                calls += ["0.marker", "0.?skipd:L"]
            hist = GM.conforming_script(rng, L, ast, 1, 40).split(",")
            hist = [c for c in hist if not any(("." + a) in c or (".?" + a) in c for a in self.AT) and "nreq" not in c]
            # bias: typed reads with a wrong type fail half-way
            hist = [(c.replace("?skipd:L", "?data:%d:L" % rng.choice(GM.TYPED)) if rng.random() < 0.4 else c) for c in hist]
            calls += hist
            if rng.random() < 0.5:
                calls.append("2.header")
            for k in range(min(nrec + 1, 8)):
                ty = L.marks[k]["type"] if (L and k < len(L.marks) and L.marks[k]["type"] in GM.TYPED) else rng.choice(GM.TYPED)
                ty2 = rng.choice(GM.TYPED)
                for r in (0, 1, 2):
                    calls += ["%d.bytesat:%d" % (r, k), "%d.dataat:%d:%d" % (r, ty, k), "%d.dataat:%d:%d" % (r, ty2, k),
                              "%d.nrefat:%d" % (r, k), "%d.nrname:H:L" % r, "%d.nrlabels:L" % r]
            out.append("a%d script 3 %s %s %s %s" % (i, GM.hx(m), GM.hx(m), GM.hx(m), ",".join(calls)))
        return out

    def nontrivial(self, line, impl):
        n, msgs, calls = split_calls(line)
        res = impl.split(";")
        return any(c.startswith("1.") and (":" in c and "data" in c or "seek" in c) and k < len(res) and res[k].startswith("err")
                   for k, c in enumerate(calls))

    def classify(self, line, impl):
        return "abnormal" if impl.startswith(ABNORMAL) or "PANIC" in impl else "ok"

    def oracle(self, line, impl, spec, pid):
        if impl.startswith(ABNORMAL):
            return "implementation " + impl[:40]
        n, msgs, calls = split_calls(line)
        res = impl.split(";")
        if len(res) < len(calls):
            return "run ended early: " + res[-1][:80]
        groups = {}
        for k, c in enumerate(calls):
            r, op = c.split(".", 1)
            if op.split(":")[0] in self.AT:
                # position-based grouping: the at-phase repeats the same 6 ops per reader
                groups.setdefault((op, k // 1), None)
        # walk the at-phase: blocks of 6 calls per reader, 3 readers per marker
        first = next((k for k, c in enumerate(calls) if c.split(".", 1)[1].split(":")[0] == "bytesat"), None)
        if first is None:
            return None
        k = first
        while k + 18 <= len(calls):
            for j in range(6):
                vals = [re.sub(r"#\d+", "#", res[k + 6 * r + j]) for r in range(3)]
                if not (vals[0] == vals[1] == vals[2]):
                    return "random access differs across reader states for call %s: healthy=%s after-history=%s fresh=%s" % (
                        calls[k + j].split(".", 1)[1], vals[0][:120], vals[1][:120], vals[2][:120])
            k += 18
        return None


class RdLen(Stream):
    """typed data decoded strictly inside RDLENGTH (C04)"""
    name = "rdlen"
    rule = ("for a random record of a generated message: RDLENGTH set to true+{0,-2,-1,1,2}, 0, true+len(next record), 65535; "
            "character-string/TXT chunk lengths +-1; two copies of the message that differ only in the bytes after the record data "
            "(0xFF.. vs a valid-looking name/record); both read sequentially up to the record, then typed data (right type) or raw "
            "bytes, then the next record header. Non-trivial: the record under test was reached. Distinct by case.")

    FIXED = {1, 28, 2, 3, 4, 5, 7, 8, 9, 12, 15, 6, 14, 13}

    def generate(self, rng, tier, pid):
        n = 3000 if tier == "quick" else 120000
        out = []
        i = 0
        while len(out) < n:
            ast = GM.rand_ast(rng)
            msg, L = GM.render(rng, ast)
            typed = [k for k, m in enumerate(L.marks) if m["type"] in GM.TYPED]
            if not typed:
                continue
            k = rng.choice(typed)
            m = L.marks[k]
            nxt = (L.marks[k + 1]["rdata_pos"] + L.marks[k + 1]["rdlen"] - (m["rdata_pos"] + m["rdlen"])) if k + 1 < len(L.marks) else 0
            delta = rng.choice([0, 0, -2, -1, 1, 2, -m["rdlen"], nxt, 65535 - m["rdlen"]])
            b = bytearray(msg)
            newlen = max(0, min(65535, m["rdlen"] + delta))
            b[m["rdlen_off"]:m["rdlen_off"] + 2] = GM.be(newlen, 2)
            sub = "len%+d" % (newlen - m["rdlen"])
            if rng.random() < 0.2 and m["type"] in (13, 16) and m["rdlen"] > 0:
                b[m["rdata_pos"]] = (b[m["rdata_pos"]] + rng.choice([1, 255])) % 256
                sub += "+chunk"
            end = m["rdata_pos"] + newlen
            a1 = bytes(b[:end]) + b"\xff" * max(0, len(b) - end) if end <= len(b) else bytes(b)
            tail2 = b"\x03www\xc0\x0c\x00\x01\x00\x01\x00\x00\x00\x01\x00\x04\x01\x02\x03\x04"
            a2 = bytes(b[:end]) + (tail2 * 20)[:max(len(tail2), len(b) - end)] if end <= len(b) else bytes(b)
            calls = ["header", "skipq"]
            for _ in range(k):
                calls += ["marker", "?skipd:L"]
            g2 = "?data:%d:L" % m["type"] if rng.random() < 0.75 else "?bytes:L"
            calls += [rng.choice(["hdrI", "hdrH", "href", "marker"]), g2, "marker"]
            sc = ",".join("0.%s" % c for c in calls) + "," + ",".join("1.%s" % c for c in calls)
            meta = "%d:%d:%d:%s" % (m["type"], newlen - m["rdlen"], len(calls), sub)
            out.append("l%d@%s script 2 %s %s %s" % (i, meta, GM.hx(a1), GM.hx(a2), sc))
            # the true bytes too (third variant: original following bytes)
            if rng.random() < 0.3:
                out.append("m%d@%s script 2 %s %s %s" % (i, meta, GM.hx(bytes(b)), GM.hx(a1), sc))
            i += 1
        return out

    def nontrivial(self, line, impl):
        return "skip" not in impl.split(";")[-2:]

    def classify(self, line, impl):
        meta = line.split(" ")[0].split("@")[1].split(":")
        res = impl.split(";")
        ncalls = int(meta[2])
        r = res[ncalls - 2] if len(res) >= ncalls else "short"
        return "delta%s:%s" % (("0" if meta[1] == "0" else ("+" if int(meta[1]) > 0 else "-")), r.split("(")[0][:22])

    def oracle(self, line, impl, spec, pid):
        if impl.startswith(ABNORMAL) or "PANIC" in impl:
            return "implementation " + impl[:60]
        meta = line.split(" ")[0].split("@")[1].split(":")
        ty, delta, ncalls = int(meta[0]), int(meta[1]), int(meta[2])
        res = impl.split(";")
        if len(res) < 2 * ncalls:
            return None
        r0, r1 = res[:ncalls], res[ncalls:2 * ncalls]
        d0, d1 = r0[ncalls - 2], r1[ncalls - 2]
        h0 = r0[ncalls - 3]
        if d0 != d1:
            return "bytes after the record data changed the decoded record data: %s vs %s" % (d0[:150], d1[:150])
        mm = re.search(r"M\((\d+),(\d+),(\d+),(\d+),(\d+),(\d+),(\d+)\)", h0)
        if d0.startswith("ok") and mm:
            rdpos = int(mm.group(2)) + 10
            rdlen = int(mm.group(6))
            nx = re.search(r"M\((\d+),", r0[ncalls - 1])
            if nx and int(nx.group(1)) != rdpos + rdlen:
                return "next record read from %s, expected %d (rdata_pos+rdlen)" % (nx.group(1), rdpos + rdlen)
            bm = re.match(r"ok:B\((\d+),([0-9a-f-]+)\)", d0)
            if bm:
                n, msgs, calls = split_calls(line)
                raw = msgs[0][2 * rdpos:2 * (rdpos + rdlen)] or "-"
                if int(bm.group(1)) != rdpos or bm.group(2) != raw:
                    return "raw access returned offset %s bytes %s, expected offset %d bytes %s" % (bm.group(1), bm.group(2)[:60], rdpos, raw[:60])
            if d0.startswith("ok:D(") and delta != 0 and ty in self.FIXED and "+chunk" not in meta[3]:
                return "RDLENGTH differs from the data's true length by %d but typed decoding succeeded: %s" % (delta, d0[:120])
        return None


STREAMS.update({"scripts": Scripts(), "misuse": Misuse(), "decode": Decode(), "randacc": RandAcc(), "rdlen": RdLen()})


# ------------------------------------------------------------------------------- name text
class NameText(Stream):
    """one notion of a valid name; text <-> wire round trip (C05)"""
    name = "nametext"
    rule = ("strings from a grammar (valid names; totals 250..257; labels of 62..65; every byte-class boundary at first/middle/last "
            "position; '', '.', '..', leading/trailing/double dots, '-' and '_' shapes; non-ASCII UTF-8; random) with and without the "
            "trailing dot -> Name::from_str, InlineName::from_str, TryFrom<&str>, and the hooked wire encoder into guard-paged buffers "
            "of capacity needed+{-2..+1}, 0, 1, 300, whose output is decoded again; plus every name accepted by the decoder in a "
            "names-stream batch is re-parsed from its text. Non-trivial: the string has at least one label. Distinct by (op, string, cap).")

    def generate(self, rng, tier, pid):
        n = 4000 if tier == "quick" else 150000
        out = []
        self.tags = {}
        for i in range(n):
            s, tag = G.gen_text(rng)
            self.tags[tag] = self.tags.get(tag, 0) + 1
            out.append("x%d text %s" % (i, G.hx(s)))
            need = len(s) + (1 if s.endswith(b".") else 2)
            cap = rng.choice([need, need, need - 1, need - 2, need + 1, 300, 300, 0, 1])
            out.append("w%d wname %s %d" % (i, G.hx(s), max(0, cap)))
        # decoded names must be valid text names
        ncases, _ = G.gen_names(rng, 1500 if tier == "quick" else 40000)
        self._decode_batch = ["d" + c for c in ncases]
        return out + self._decode_batch

    def run(self, cases, pid, tier):
        r = super().run(cases, pid, tier)
        # phase 2: re-parse every decoded name
        impl = C.run_impl([c for c in cases if " name " in c])
        extra = []
        seen = set()
        for cid, v in impl.items():
            d = parse_kv(v)
            for k in ("RH", "RI"):
                m = re.match(r"ok:([0-9a-f-]+):", d.get(k, ""))
                if m and m.group(1) not in seen:
                    seen.add(m.group(1))
                    extra.append("p%d text %s" % (len(extra), m.group(1)))
        if extra:
            self._phase2 = True
            r2 = super().run(extra, pid, tier)
            self._phase2 = False
            for k in ("evaluations", "distinct_nontrivial"):
                r[k] += r2[k]
            r["failures"] += r2["failures"]
            r["disagreements"] += r2["disagreements"]
            r["decoded_names_reparsed"] = len(extra)
        return r

    def classify(self, line, impl):
        op = line.split(" ")[1]
        return op + ":" + (impl.split(":")[0] if op == "wname" else parse_kv(impl).get("H", impl)[:30].split("(")[0])

    def nontrivial(self, line, impl):
        return len(line.split(" ")[2]) > 2

    def oracle(self, line, impl, spec, pid):
        if impl.startswith(ABNORMAL) or "PANIC" in impl:
            return "implementation " + impl[:60]
        op = line.split(" ")[1]
        if spec is None or op == "name":
            return None
        sp = spec.split(" ")
        valid, canon = sp[1] == "1", sp[2]
        if op == "text":
            if impl == "nonutf8":
                return None
            d = parse_kv(impl)
            for k in ("H", "I", "TH", "TI"):
                v = d.get(k, "")
                if valid and v != "ok:" + canon:
                    return "valid name text but %s=%s (expected ok:%s)" % (k, v[:80], canon[:80])
                if not valid and not v.startswith("err:"):
                    return "invalid name text accepted: %s=%s" % (k, v[:80])
            if getattr(self, "_phase2", False) and not valid:
                return "a name returned by the decoder is not a valid text name"
            return None
        if op == "wname":
            cap = int(line.split(" ")[3])
            need = int(sp[3])
            if impl.startswith("ok:"):
                if not valid:
                    return "encoder accepted a string the parsers reject: " + impl[:80]
                m = re.match(r"ok:(\d+):([0-9a-f-]+) RT=(\S+) REST=(\S+)", impl)
                n = int(m.group(1))
                if n > 255 or n > cap:
                    return "encoder wrote %d octets (cap %d)" % (n, cap)
                if m.group(3) != "ok:%s:%d" % (canon, n):
                    return "decode(encode(name)) = %s, expected ok:%s:%d" % (m.group(3)[:80], canon[:80], n)
                if m.group(4) != "true":
                    return "encoder wrote beyond the bytes it reported"
            else:
                if valid and cap >= need and canon != "2e" and not impl.startswith("err:"):
                    return "unexpected " + impl[:60]
                if valid and cap >= need and impl.startswith("err:"):
                    return "valid name rejected by the encoder with enough room (cap %d, need %d): %s" % (cap, need, impl[:60])
            return None
        return None


class NameOrd(Stream):
    """equality / ordering / hashing coherence (C18)"""
    name = "nameord"
    rule = ("pairs and triples of name strings from the nametext grammar, biased to case permutations of one another, +-trailing "
            "dot, prefixes, the root, maximum length; each pair both ways -> ==, cmp, partial_cmp, Hash (bytes fed to a recording "
            "Hasher), the four conversions, name == &str for both types. Non-trivial: both strings parse. Distinct by pair.")

    def generate(self, rng, tier, pid):
        n = 3000 if tier == "quick" else 100000
        out = []
        for i in range(n):
            a, _ = G.gen_text(rng)
            while rng.random() < 0.5 and len(a) == 0:
                a, _ = G.gen_text(rng)
            r = rng.random()
            if r < 0.35:
                b = G.recase(rng, a)
            elif r < 0.45:
                b = a[:-1] if a.endswith(b".") else a + b"."
                b = G.recase(rng, b) if rng.random() < 0.5 else b
            elif r < 0.55:
                b = a[:rng.randrange(0, len(a) + 1)]
            elif r < 0.65:
                b = a + bytes([rng.choice(G.LABEL_CHARS)])
            else:
                b, _ = G.gen_text(rng)
            r2 = rng.random()
            c = G.recase(rng, b) if r2 < 0.3 else (G.gen_text(rng)[0] if r2 < 0.7 else a + b"x")
            for tag, (x, y) in (("ab", (a, b)), ("ba", (b, a)), ("bc", (b, c)), ("ac", (a, c)), ("aa", (a, a))):
                out.append("o%d%s textpair %s %s" % (i, tag, G.hx(x), G.hx(y)))
        return out

    def nontrivial(self, line, impl):
        return "EQ=" in impl

    def classify(self, line, impl):
        d = parse_kv(impl)
        return "unparsed" if "EQ" not in d else "eq" if d["EQ"].startswith("true") else "cmp" + d.get("CMP", "?")[:2]

    @staticmethod
    def lower(h):
        b = bytes.fromhex(h) if h != "-" else b""
        return bytes((c + 32) if 65 <= c <= 90 else c for c in b)

    def oracle(self, line, impl, spec, pid):
        if impl.startswith(ABNORMAL) or "PANIC" in impl:
            return "implementation " + impl[:60]
        if impl == "nonutf8":
            return None
        d = parse_kv(impl)
        a_hex, b_hex = line.split(" ")[2], line.split(" ")[3]
        if "EQ" in d:
            eq = d["EQ"].split(",")
            cmp_ = d["CMP"].split(",")
            hf = d["HF"].split(",")
            conv = d["CONV"].split(",")
            if len(set(eq)) != 1:
                return "the equality impls disagree (Name, InlineName, cross): " + d["EQ"]
            if len(set(cmp_)) != 1:
                return "the ordering impls disagree: " + d["CMP"]
            ta, tb = self.lower(conv[0]), self.lower(hf[2]) if False else None
            if len(set(conv)) != 1:
                return "conversions changed the text: " + d["CONV"][:120]
            want_text = a_hex + ("" if a_hex.endswith("2e") else "2e")
            if conv[0] != want_text:
                return "parsed name text %s differs from the canonical spelling %s" % (conv[0][:60], want_text[:60])
            la = self.lower(want_text)
            lb = self.lower(b_hex + ("" if b_hex.endswith("2e") else "2e"))
            want_cmp = "Eq" if la == lb else ("Lt" if la < lb else "Gt")
            if cmp_[0] != want_cmp:
                return "cmp = %s but the case-folded texts compare %s" % (cmp_[0], want_cmp)
            if (eq[0] == "true") != (want_cmp == "Eq"):
                return "== is %s but cmp is %s" % (eq[0], cmp_[0])
            if hf[0] != hf[1] or hf[2] != hf[3]:
                return "Name and InlineName feed different bytes to the hasher"
            if eq[0] == "true" and hf[0] != hf[2]:
                return "equal names hash differently"
            hs = d.get("HS", "").split(",")
            if len(hs) == 4 and eq[0] == "true" and (hs[0] != hs[2] or hs[1] != hs[3]):
                return ("equal names make different sequences of Hasher calls (%s vs %s; %s vs %s): they hash differently under any "
                        "hasher that is sensitive to call boundaries (std::hash::Hasher: equal values must make exactly the same calls)" % (hs[0], hs[2], hs[1], hs[3]))
            if hf[0] != (la.hex() or "-"):
                return "hash feed is not the case-folded text"
            eqs = d.get("EQS", "-").split(",")
            if eqs != ["-"] and (eqs[0] != eq[0] or eqs[1] != eq[0]):
                return "name == &str is %s but parsing the string first gives %s" % (d["EQS"], eq[0])
        else:
            eqs = d.get("EQS", "-").split(",")
            if eqs != ["-"] and "true" in eqs:
                return "name == &str is true for a string that does not parse as a name: " + b_hex[:80]
        return None


class Wire(Stream):
    """query bytes (hook part of C11): QueryWriter into exact-size guard-paged buffers"""
    name = "wire"
    rule = ("hooked QueryWriter::write with names from the nametext grammar (valid, maximum length, invalid), qtype/qclass incl. 0 and "
            "65535, RD on/off, OPT absent or (version, payload), buffer capacity 0..300 around the exact need; output compared with the "
            "model and with the RFC layout oracle. Non-trivial: the name is valid. Distinct by case.")

    def generate(self, rng, tier, pid):
        n = 2500 if tier == "quick" else 60000
        out = []
        for i in range(n):
            s, tag = G.gen_text(rng)
            if rng.random() < 0.5:
                s = b".".join(G.small_label(rng) for _ in range(rng.choice([1, 2, 3])))
            try:
                s.decode()
            except UnicodeDecodeError:
                continue
            opt = "-" if rng.random() < 0.4 else "%d:%d" % (rng.choice([0, 0, 1, 255]), rng.choice([512, 1232, 4096, 65535, 0]))
            need = 2 + 12 + len(s) + (1 if s.endswith(b".") else 2) + 4 + (11 if opt != "-" else 0)
            cap = max(0, rng.choice([need, need, need - 1, need + 1, need - 5, need - 12, 288, 288, 300, 0, 1, 2, 13, 14]))
            out.append("q%d query %d %s %d %d %d %s" % (i, cap, G.hx(s), rng.choice([1, 28, 255, 0, 65535, rng.randrange(65536)]),
                                                        rng.choice([1, 1, 3, 255, 0, 65535]), rng.randrange(2), opt))
        return out

    def nontrivial(self, line, impl):
        return impl.startswith("ok:")

    def classify(self, line, impl):
        return impl.split("(")[0][:30] if impl.startswith("err") else impl[:2]

    def oracle(self, line, impl, spec, pid):
        if impl.startswith(ABNORMAL) or "PANIC" in impl:
            return "implementation " + impl[:60]
        a = line.split(" ")
        cap, name, qt, qc, rd, opt = int(a[2]), bytes.fromhex(a[3]) if a[3] != "-" else b"", int(a[4]), int(a[5]), a[6] == "1", a[7]
        valid = spec is None or spec.split(" ")[1] == "1"
        if not impl.startswith("ok:"):
            if valid and cap >= 288 and impl.startswith("err:"):
                return "valid query refused although the buffer is large enough: " + impl[:60]
            return None
        if not valid:
            return "a query for an invalid name was written instead of being refused: " + impl[:80]
        n, wire = impl[3:].split(":")
        wire = bytes.fromhex(wire)
        # RFC layout, independent of the model
        labels = [l for l in name.rstrip(b".").split(b".")] if name != b"." else []
        qn = b"".join(bytes([len(l)]) + l for l in labels) + b"\x00"
        body = b"\x00\x00" + (b"\x01\x00" if rd else b"\x00\x00") + b"\x00\x01\x00\x00\x00\x00" + (b"\x00\x01" if opt != "-" else b"\x00\x00")
        body += qn + qt.to_bytes(2, "big") + qc.to_bytes(2, "big")
        if opt != "-":
            v, p = opt.split(":")
            body += b"\x00\x00\x29" + int(p).to_bytes(2, "big") + b"\x00" + bytes([int(v)]) + b"\x00\x00\x00\x00"
        want = len(body).to_bytes(2, "big") + body
        if wire != want:
            return "query bytes differ from the RFC layout: got %s want %s" % (wire.hex()[:160], want.hex()[:160])
        if int(n) != len(want) or int(n) > cap:
            return "reported length %s, expected %d (cap %d)" % (n, len(want), cap)
        return None


STREAMS.update({"nametext": NameText(), "nameord": NameOrd(), "wire": Wire()})


# ------------------------------------------------------------------------------- views (C08)
class Views(Stream):
    """all views of a message agree"""
    name = "views"
    rule = ("per message (generated/mutated/random): reader 0 uses bare markers, reader 1 borrowed-name headers + raw bytes, reader 2 "
            "owned Name headers + typed data, reader 3 InlineName headers; every borrowed name is decoded as Name and InlineName and "
            "label-iterated; all pairs of borrowed names are compared with NameRef::eq; the iterator API drains the same bytes. "
            "Checked on the implementation alone: equal marker fields wherever two views succeed, a view that decodes more never "
            "succeeds where one that decodes less fails, decoded owner names equal, iterator items = reader items filtered by defined "
            "type/class, NameRef::eq = case-insensitive equality of the decoded names. Non-trivial: >=1 record header read. Distinct by message.")

    def generate(self, rng, tier, pid):
        n = 2000 if tier == "quick" else 60000
        out = []
        for i in range(n):
            m, ast, L, tag = GM.gen_message(rng)
            nrec = (len(L.marks) if L else 2) + 1
            nrec = min(nrec, 10)
            calls = []
            for r, (g1, g2) in enumerate((("marker", "?skipd:L"), ("href", "?bytes:L"), ("hdrH", None), ("hdrI", "?skipd:L"))):
                calls += ["%d.header" % r, "%d.skipq" % r]
                for k in range(nrec):
                    calls.append("%d.%s" % (r, g1))
                    if g2 is None:
                        ty = L.marks[k]["type"] if (L and k < len(L.marks) and L.marks[k]["type"] in GM.TYPED) else None
                        calls.append("%d.?data:%d:L" % (r, ty) if ty else "%d.?skipd:L" % r)
                    else:
                        calls.append("%d.%s" % (r, g2))
                    if g1 == "href":
                        calls += ["1.nrname:H:L", "1.nrname:I:L", "1.nrlabels:L"]
            # names embedded in RDATA, reached through name_ref_at (not validated by any header call)
            if rng.random() < 0.5 and len(m) > 20:
                pass
            for k in range(min(nrec, 6)):
                calls += ["0.nrefat:%d" % k, "0.nrname:H:L", "0.nrname:I:L", "0.nrlabels:L"]
            # borrowed-name pairs (indices 0..nrec-1 are reader 1's header names)
            for a in range(min(nrec, 5)):
                for b in range(min(nrec, 5)):
                    calls.append("1.nreq:%d:%d" % (a, b))
            hexm = GM.hx(m)
            out.append("v%d script 4 %s %s %s %s %s" % (i, hexm, hexm, hexm, hexm, ",".join(calls)))
            out.append("v%di iter %s" % (i, hexm))
        return out

    def nontrivial(self, line, impl):
        return "ok:M(" in impl or "R(" in impl

    def classify(self, line, impl):
        return line.split(" ")[1]

    @staticmethod
    def lower(h):
        b = bytes.fromhex(h) if h != "-" else b""
        return bytes((c + 32) if 65 <= c <= 90 else c for c in b)

    def oracle(self, line, impl, spec, pid):
        if impl.startswith(ABNORMAL) or "PANIC" in impl:
            return "implementation " + impl[:60]
        if line.split(" ")[1] != "script":
            return None
        n, msgs, calls = split_calls(line)
        res = impl.split(";")
        if len(res) < len(calls):
            return "run ended early"
        per = {0: [], 1: [], 2: [], 3: []}
        names1 = []   # (H, I, labels) per href
        by_idx = {}
        k = 0
        nreq = []
        while k < len(calls):
            r, op = calls[k].split(".", 1)
            r = int(r)
            o = op.split(":")[0].lstrip("?")
            if o in ("marker", "href", "hdrH", "hdrI"):
                per[r].append((res[k], res[k + 1] if k + 1 < len(res) else ""))
                if o == "href":
                    mm = re.match(r"ok:HR\(#(\d+),", res[k])
                    names1.append((res[k + 2], res[k + 3], res[k + 4]) if mm else ("", "", ""))
                    if mm:
                        by_idx[int(mm.group(1))] = (res[k + 2], res[k + 3], res[k + 4])
            elif o == "nreq":
                nreq.append((op, res[k]))
            k += 1
        mk = lambda s: (re.search(r"M\([^)]*\)", s).group(0) if re.search(r"M\([^)]*\)", s) else None)
        alive = [True, True, True, True]
        for i in range(len(per[0])):
            g = [per[r][i][0] if i < len(per[r]) else "" for r in range(4)]
            if not all(alive):
                break   # a reader that hit an error is exhausted by design; nothing more to compare
            ok = [x.startswith("ok") for x in g]
            ms = [mk(x) for x in g]
            alive = [ok[r] and (per[r][i][1].startswith("ok") if i < len(per[r]) else False) for r in range(4)]
            # more decoding never succeeds where less fails: HN(Name)/HN(Inline) => HR => M
            if (ok[2] or ok[3]) and not ok[1]:
                return "record %d: owned-name header succeeded but borrowed-name header failed: %s / %s" % (i, g[2][:80], g[1][:80])
            if ok[1] and not ok[0]:
                return "record %d: borrowed-name header succeeded but bare marker failed: %s / %s" % (i, g[1][:80], g[0][:80])
            if ok[2] != ok[3]:
                return "record %d: Name and InlineName headers disagree: %s / %s" % (i, g[2][:80], g[3][:80])
            present = [m for m, o in zip(ms, ok) if o]
            if len(set(present)) > 1:
                return "record %d: views report different marker fields: %s" % (i, present)
            if not ok[0]:
                break
            if ok[2] and ok[3]:
                n2 = re.match(r"ok:HN\(([0-9a-f-]+),", g[2]).group(1)
                n3 = re.match(r"ok:HN\(([0-9a-f-]+),", g[3]).group(1)
                if n2 != n3:
                    return "record %d: Name and InlineName owner differ" % i
                if i < len(names1):
                    h, ii, lb = names1[i]
                    if h != "ok:N(%s)" % n2 or ii != "ok:N(%s)" % n2:
                        return "record %d: borrowed name decodes to %s / %s, owned header says %s" % (i, h[:60], ii[:60], n2[:60])
                    labs = re.findall(r":([0-9a-f-]+),", lb)
                    txt = "".join(l + "2e" for l in labs) or "2e"
                    if not lb.endswith(",none)") or txt != n2:
                        return "record %d: label iteration %s does not spell the decoded name %s" % (i, lb[:80], n2[:60])
            elif ok[1] and i < len(names1):
                # header_ref succeeded (it validates by skipping) but decoding failed: only the length limit may differ
                h = names1[i][0]
                if h.startswith("ok"):
                    return "record %d: owned header failed (%s) but decoding the borrowed name succeeded" % (i, g[2][:60])
            # G2 of the views must agree on success
            d = [per[r][i][1] if i < len(per[r]) else "" for r in range(4)]
            if ok[0] and ok[1] and d[0].startswith("ok") != d[1].startswith("ok"):
                return "record %d: skip vs raw bytes disagree: %s / %s" % (i, d[0][:60], d[1][:60])
        # a borrowed name: label iteration and decoding validate the same labels
        for k, c in enumerate(calls):
            if c.split(".", 1)[1].startswith("nrefat") and k + 3 < len(res) and res[k].startswith("ok:NR"):
                h, ii, lb = res[k + 1], res[k + 2], res[k + 3]
                if h.startswith("ok") != ii.startswith("ok"):
                    return "Name and InlineName decode the same borrowed name differently: %s / %s" % (h[:60], ii[:60])
                labs = re.findall(r":([0-9a-f-]+),", lb)
                wl = sum(len(l) // 2 + 1 for l in labs) + 1
                if lb.endswith(",none)"):
                    txt = "".join(l + "2e" for l in labs) or "2e"
                    if wl <= 255 and h != "ok:N(%s)" % txt:
                        return "label iteration accepts %s but decoding gives %s" % (lb[:80], h[:80])
                elif h.startswith("ok"):
                    return "decoding succeeded (%s) but label iteration failed: %s" % (h[:60], lb[-60:])
        # NameRef::eq against decoded names
        for op, r in nreq:
            _, a, b = op.split(":")
            a, b = int(a), int(b)
            if a in by_idx and b in by_idx:
                ha, hb = by_idx[a][0], by_idx[b][0]
                if ha.startswith("ok:N(") and hb.startswith("ok:N("):
                    want = self.lower(ha[5:-1]) == self.lower(hb[5:-1])
                    if r != "ok:%s" % ("true" if want else "false"):
                        return "NameRef::eq(%d,%d) = %s but the decoded names are %sequal" % (a, b, r, "" if want else "not ")
        return None

    def run(self, cases, pid, tier):
        r = super().run(cases, pid, tier)
        # iterator vs reader (cross-case): typed items of reader 2 filtered by defined type/class
        impl = self._last_impl
        for line in cases:
            cid = line.split(" ", 1)[0]
            if not cid.endswith("i"):
                continue
            it = impl.get(cid, "")
            sc = impl.get(cid[:-1], "")
            why = self.iter_vs_reader(it, sc)
            if why:
                r["failures"].append({"stream": self.name, "case": line, "observed": it[:400], "expected": sc[:400], "why": why})
        return r

    DEFINED_T = {1, 2, 3, 4, 5, 6, 7, 8, 9, 10, 11, 12, 13, 14, 15, 16, 28, 41, 252, 253, 254, 255}
    DEFINED_C = {1, 2, 3, 4, 255}
    VARIANT = {1: "A", 28: "Aaaa", 2: "Name", 3: "Name", 4: "Name", 5: "Name", 7: "Name", 8: "Name", 9: "Name", 12: "Name",
               13: "Hinfo", 11: "Wks", 14: "Minfo", 15: "Mx", 10: "Null", 6: "Soa", 16: "Txt"}

    def iter_vs_reader(self, it, sc):
        if not it.startswith("new=ok") or not sc:
            return None
        m = re.search(r"RS=\[(.*)\](end|err:\S+)$", it)
        if not m:
            return None
        items = re.findall(r"R\((\d),([0-9a-f-]+),(\d+),(\d+),(\d+),(D\([^)]*\))\)", m.group(1))
        # reader 2's sequence: ok:HN(name,M(off,toff,type,class,ttl,rdlen,section));ok:D(...)
        seq = re.findall(r"ok:HN\(([0-9a-f-]+),M\(\d+,\d+,(\d+),(\d+),(\d+),\d+,(\d)\)\);(ok:D\([^)]*\)|ok|err:[^;]*|skip)", sc.split(";1.")[0])
        want = []
        for (nm, ty, cl, ttl, sec, d) in seq:
            if int(ty) in self.DEFINED_T and int(cl) in self.DEFINED_C:
                if int(ty) in (41, 252, 253, 254, 255):
                    break
                if not d.startswith("ok:D("):
                    break
                # the reader's typed read asks for the type of the generated AST; on a mutated message the
                # wire TYPE may differ: then only the header fields are comparable and the two passes diverge
                parts = d[5:].rstrip(")").split(",")
                variant = parts[0]
                if self.VARIANT.get(int(ty)) != variant or (variant == "Name" and (len(parts) < 2 or parts[1] != ty)):
                    want.append((sec, nm, cl, ty, ttl, None))
                    break
                want.append((sec, nm, cl, ty, ttl, d[3:]))
        got = [tuple(x) for x in items]
        for a, b in zip(got, want):
            if b[5] is None:
                if a[:5] != b[:5]:
                    return "iterator item %s differs from the reader's header %s" % (a, b[:5])
                continue
            if a != b:
                return "iterator item %s differs from the reader's %s" % (a, b)
        return None


_orig_run = Stream.run


def _run_keep(self, cases, pid, tier):
    r = _orig_run(self, cases, pid, tier)
    return r


STREAMS.update({"views": Views()})


# ------------------------------------------------------------------------------- rrset (C06, C07)
class RRSet(Stream):
    """record-set extraction against a code-blind resolver over the generated AST"""
    name = "rrset"
    rule = ("response ASTs built around a CNAME graph (chain 0..5, forks, loops, self-loops, dangling), owners and targets in random "
            "letter case, final records of the requested type D (all 17 round-robin), decoys of other class/type/owner, shuffled "
            "order, decoys in authority/additional, OPT absent / in additional (first, last, duplicated) / in authority with "
            "extension 0/1/16/255, and the gate conditions (QR=0, TC, QDCOUNT 0/2/3, RCODE != 0) injected with 10-15% each; rendered "
            "with none/greedy/random compression. Expected value computed from the AST by a 20-line resolver in the checker. "
            "Non-trivial: all gates pass (the resolver runs). Distinct by (D, message).")

    def generate(self, rng, tier, pid):
        n = 3000 if tier == "quick" else 100000
        out = []
        self.expect = {}
        for i in range(n):
            ast, D, qname, qclass = GM.gen_response(rng)
            msg, L = GM.render(rng, ast)
            cid = "r%d" % i
            self.expect[cid] = GM.expected_rrset(ast, D, qname, qclass)
            out.append("%s rrset %d %s" % (cid, D, GM.hx(msg)))
        return out

    def nontrivial(self, line, impl):
        return impl.startswith(("ok:", "err:NoAnswer"))

    def classify(self, line, impl):
        return impl.split("(")[0][:24]

    def oracle(self, line, impl, spec, pid):
        if impl.startswith(ABNORMAL) or "PANIC" in impl:
            return "implementation " + impl[:60]
        if pid == "C01":
            return None      # C01 uses these CNAME graphs (loops, self-loops, forks) as hostile input only: crash / hang / panic
        cid = line.split(" ", 1)[0]
        exp = getattr(self, "expect", {}).get(cid)
        if exp is None:
            return None
        if isinstance(exp, str):
            if impl != exp:
                return "expected %s, got %s" % (exp, impl[:120])
            return None
        _, name, qclass, ttl, hits = exp
        want = "ok:RS(%s,%d,%d,[%s])" % ((b"".join(l + b"." for l in name) or b".").hex(), qclass, ttl,
                                         ",".join(GM.fmt_rdata(r["rdata"]) for r in hits))
        if impl != want:
            return "record set differs from the resolver: got %s want %s" % (impl[:200], want[:200])
        return None


STREAMS.update({"rrset": RRSet()})


# ------------------------------------------------------------------------------- roundtrip (C02)
class RoundTrip(Stream):
    """well-formed messages decode to exactly what they encode"""
    name = "roundtrip"
    rule = ("random message ASTs (any id/flags/counts, 0-3 questions, records of the 17 typed formats, OPT, unknown types/classes in "
            "any section) rendered by the none/greedy/random compression engines; read sequentially (header, questions, then for each "
            "record an owned-name header with Name or InlineName + typed data / OPT / raw bytes) and through the iterator; every "
            "field compared with the AST, nothing extra reported, records_count decreasing by one. Non-trivial: >=1 record. "
            "Distinct by message.")

    def generate(self, rng, tier, pid):
        n = 2000 if tier == "quick" else 60000
        out = []
        self.asts = {}
        for i in range(n):
            ast = GM.rand_ast(rng)
            msg, L = GM.render(rng, ast)
            calls = ["header", "qcount", "rcount"]
            for _ in ast["qd"]:
                calls.append(rng.choice(["q", "q", "qref"]))
            calls.append("q")          # over-read: ReaderDone... only when no questions remain
            # the over-read latches the error state, so use a second reader for the records
            rec_calls = ["header", "skipq"]
            for m in L.marks:
                rec_calls.append(rng.choice(["hdrH", "hdrI"]))
                if m["type"] in GM.TYPED:
                    rec_calls.append("?data:%d:L" % m["type"])
                elif m["type"] == 41:
                    rec_calls.append("?opt:L")
                else:
                    rec_calls.append("?bytes:L")
                rec_calls.append("rcount")
            rec_calls += ["marker", "rcount"]
            hexm = GM.hx(msg)
            cid = "t%d" % i
            self.asts[cid] = (ast, L)
            out.append("%s script 2 %s %s %s" % (cid, hexm, hexm, ",".join(["0." + c for c in calls] + ["1." + c for c in rec_calls])))
            out.append("%si iter %s" % (cid, hexm))
        return out

    def nontrivial(self, line, impl):
        return "ok:HN(" in impl or "R(" in impl

    def classify(self, line, impl):
        return line.split(" ")[1]

    @staticmethod
    def hdr(ast):
        """RFC 1035 4.1.1 header fields, independent of the code"""
        f = ast["flags"]
        return "H(%d,%d,%d,%d,%d,%d|%d,%d,%d,%d,%d,%d,%d)" % (
            ast["id"], f, len(ast["qd"]), len(ast["secs"][0]), len(ast["secs"][1]), len(ast["secs"][2]),
            (f >> 15) & 1, (f >> 11) & 15, (f >> 10) & 1, (f >> 9) & 1, (f >> 8) & 1, (f >> 7) & 1, f & 15)

    def oracle(self, line, impl, spec, pid):
        if impl.startswith(ABNORMAL) or "PANIC" in impl:
            return "implementation " + impl[:60]
        cid = line.split(" ", 1)[0]
        nm = lambda ls: (b"".join(l + b"." for l in ls) or b".").hex()
        if cid.endswith("i"):
            ast, L = self.asts[cid[:-1]]
            if not impl.startswith("new=ok:" + self.hdr(ast)):
                return "iterator header differs from the encoded one: " + impl[:80]
            qs = "QS=[" + "".join("Q(%s,%d,%d)," % (nm(n), t, c) for (n, t, c) in ast["qd"]) + "]end"
            if qs not in impl:
                return "iterator questions differ: want %s got %s" % (qs[:150], impl[:200])
            want = []
            stop = "end"
            for m in L.marks:
                r = m["rec"]
                if r["class"] not in GM.KNOWN_CLASSES or r["type"] not in GM.KNOWN_TYPES:
                    continue
                if r["type"] not in GM.TYPED:
                    stop = "err:UnexpectedType(%d)" % r["type"]
                    break
                want.append("R(%d,%s,%d,%d,%d,%s)," % (m["section"], nm(r["owner"]), r["class"], r["type"], r["ttl"], GM.fmt_rdata(r["rdata"])))
            ws = "RS=[" + "".join(want) + "]" + stop
            if not impl.endswith(ws):
                return "iterator records differ: want %s got %s" % (ws[:200], impl[impl.find("RS="):][:200])
            return None
        ast, L = self.asts[cid]
        n, msgs, calls = split_calls(line)
        res = impl.split(";")
        if len(res) < len(calls):
            return "run ended early: " + res[-1][:60]
        k = 0
        exp = ["ok:" + self.hdr(ast), "ok:%d" % len(ast["qd"]), "ok:%d" % len(L.marks)]
        for (nme, t, c) in ast["qd"]:
            exp.append(("Q", nme, t, c))
        exp.append("err:ReaderDone")
        exp += ["ok:" + self.hdr(ast), "ok"]
        left = len(L.marks)
        for m in L.marks:
            r = m["rec"]
            exp.append("ok:HN(%s,M(%d,%d,%d,%d,%d,%d,%d))" % (nm(r["owner"]), m["start"], m["type_off"], r["type"], r["class"], r["ttl"], m["rdlen"], m["section"]))
            if r["type"] in GM.TYPED:
                exp.append("ok:" + GM.fmt_rdata(r["rdata"]))
            elif r["type"] == 41:
                ttl = r["ttl"]
                exp.append("ok:O(%d,%d,%d,%d)" % (r["class"], (ttl >> 24) & 0xFF, (ttl >> 16) & 0xFF, 1 if ttl & 0x8000 else 0))
            else:
                exp.append("ok:B(%d,%s)" % (m["rdata_pos"], GM.hx(r["rdata"][1])))
            left -= 1
            exp.append("ok:%d" % left)
        exp += ["err:ReaderDone", "ok:0"]
        for i, (e, got) in enumerate(zip(exp, res)):
            if isinstance(e, tuple):
                _, nme, t, c = e
                if not (got == "ok:Q(%s,%d,%d)" % (nm(nme), t, c) or re.match(r"ok:QR\(#\d+,%d,%d\)$" % (t, c), got)):
                    return "question %s differs: %s" % (nm(nme)[:40], got[:80])
            elif e != got:
                return "call %d (%s): decoded %s, encoded %s" % (i, calls[i], got[:160], e[:160])
        return None


STREAMS.update({"roundtrip": RoundTrip()})


# ------------------------------------------------------------------------------- alloc (C20)
class Alloc(Stream):
    """the allocation-free API performs no heap allocation, on success and on every error path"""
    name = "alloc"
    rule = ("conforming scripts restricted to the allocation-free API (header; question/question_ref/the_question(_ref)/skip; "
            "marker, header_ref, record_header<InlineName>; typed A/AAAA (also on records of other types: error paths), raw bytes, "
            "skip, opt_record; seek; counts; ..._at::<A|AAAA>, bytes_at, name_ref_at; NameRef eq/labels; InlineName::try_from) plus a "
            "few allocating calls as positive controls (record_header<Name>, typed NS/TXT) over generated/mutated/random messages; "
            "and MessageIterator new/question/questions()/records() with A/AAAA items. A counting global allocator (thread-local "
            "counter) measures each crate call separately. Non-trivial: >=1 record header read. Distinct by case.")

    FREE = ("header", "seek", "qcount", "rcount", "rcountin", "q", "qref", "theq", "theqref", "skipq", "marker", "href", "hdrI",
            "skipd", "bytes", "opt", "optorskip", "bytesat", "nrefat", "nreq", "nrlabels")

    def is_free(self, call):
        op = call.split(".", 1)[1].lstrip("?")
        p = op.split(":")
        if p[0] in self.FREE:
            return True
        if p[0] in ("data", "dataat"):
            return p[1] in ("1", "28")
        if p[0] == "nrname":
            return p[1] == "I"
        return False

    def generate(self, rng, tier, pid):
        n = 3000 if tier == "quick" else 100000
        out = []
        for i in range(n):
            m, ast, L, tag = GM.gen_message(rng)
            sc = GM.conforming_script(rng, L, ast, 0, 50).split(",")
            fixed = []
            for c in sc:
                op = c.split(".", 1)[1]
                if op.startswith("hdrH") and rng.random() < 0.85:
                    c = "0.hdrI"
                if "data:" in op and rng.random() < 0.85:
                    c = re.sub(r"data:\d+:", "data:%d:" % rng.choice([1, 28]), c)
                if "dataat:" in op and rng.random() < 0.85:
                    c = re.sub(r"dataat:\d+:", "dataat:%d:" % rng.choice([1, 28]), c)
                if "nrname:H" in op and rng.random() < 0.85:
                    c = c.replace("nrname:H", "nrname:I")
                fixed.append(c)
            out.append("y%d ascript 1 %s %s" % (i, GM.hx(m), ",".join(fixed)))
            if i % 3 == 0:
                out.append("z%d aiter %s" % (i, GM.hx(m)))
        return out

    def run(self, cases, pid, tier):
        # the model has no allocation counts: compare after stripping the @n suffixes
        model, specs = run_model_with_spec(cases)
        impl = C.run_impl(cases)
        dis, fails, hist, samples = [], [], {}, []
        nontriv = 0
        self.free_calls = self.alloc_calls = 0
        for line in cases:
            cid = line.split(" ", 1)[0]
            i = impl.get(cid, "MISSING")
            if line.split(" ")[1] == "ascript":
                stripped = ";".join(x.rsplit("@", 1)[0] for x in i.split(";")) if "@" in i else i
                m = model.get(cid, "MISSING")
                if m != stripped and not i.startswith(ABNORMAL):
                    dis.append({"case": line[:300], "model": m[:300], "impl": stripped[:300]})
            why = self.oracle(line, i, None, pid)
            if why:
                fails.append({"stream": self.name, "case": line, "observed": i[:600], "expected": "0 allocations", "why": why})
            if ";ok:M(" in i or ";ok:HN(" in i or ";ok:HR(" in i or "RS=[" in i:
                nontriv += 1
                if len(samples) < 3:
                    samples.append({"case": line.split(" ", 1)[1][:300], "impl": i[:300]})
        hist = {"allocation_free_calls_measured": self.free_calls, "allocating_control_calls": self.alloc_calls}
        return {"evaluations": len(cases), "distinct_nontrivial": nontriv, "rule": self.rule, "samples": samples,
                "histogram": hist, "disagreements": dis, "failures": fails, "model_impl_agree": len(cases) - len(dis)}

    def oracle(self, line, impl, spec, pid):
        if impl.startswith(ABNORMAL) or "PANIC" in impl:
            return "implementation " + impl[:60]
        if line.split(" ")[1] == "aiter":
            m = re.match(r"new=(\w+)@(\d+)", impl)
            if m and m.group(2) != "0":
                return "MessageIterator::new allocated %s times" % m.group(2)
            for tag in ("Q", "QS"):
                mm = re.search(r" %s@(\d+)" % tag, impl)
                if mm and mm.group(1) != "0":
                    return "iterator %s allocated %s times" % ("question()" if tag == "Q" else "questions()", mm.group(1))
            for ty, n in re.findall(r"(\w+)@(\d+),", impl[impl.find("RS=["):]):
                self.free_calls += 1
                if ty in ("1", "28") and n != "0":
                    return "iterator item of type %s allocated %s times" % (ty, n)
            return None
        n, msgs, calls = split_calls(line)
        res = impl.split(";")
        for c, r in zip(calls, res):
            if "@" not in r:
                continue
            body, cnt = r.rsplit("@", 1)
            if body in ("skip", "nosuch"):
                continue
            if self.is_free(c):
                self.free_calls += 1
                if cnt != "0":
                    return "call %s performed %s heap allocation(s): %s" % (c, cnt, body[:80])
            else:
                self.alloc_calls += 1
        return None


STREAMS.update({"alloc": Alloc()})


# ------------------------------------------------------------------------------- network streams
import netgen as NG


def parse_net(impl):
    """-> (results: {k: (res, dur)}, udp: [(q,t,bytes)], tcp: [(q,t,bytes)])"""
    res, udp, tcp = {}, [], []
    for part in impl.split(" "):
        m = re.match(r"Q(\d+)=(.*)@(\d+)$", part)
        if m:
            res[int(m.group(1))] = (m.group(2), int(m.group(3)))
        elif part.startswith("UDP=[") or part.startswith("TCP=["):
            body = part[5:-1]
            lst = udp if part.startswith("UDP") else tcp
            for it in body.split(","):
                if it:
                    q, t, h = it.split(":")
                    lst.append((int(q) if int(q) < 10 ** 9 else -1, int(t), bytes.fromhex(h) if h != "-" else b""))
    return res, udp, tcp


class Net(Stream):
    """scripted loopback scenarios for the four clients; expectation = what a correct DNS client does"""
    focus = "wire"
    name = "net"
    SLACK = 250      # scheduling slack allowed on top of the lifetime (ms)
    TOL = 130        # tolerance for transmission times (ms)

    def generate(self, rng, tier, pid):
        n = self.quick_n if tier == "quick" else self.thorough_n
        out = []
        self.scen = {}
        for i in range(n):
            client = NG.CLIENTS[i % 4]
            sc = NG.gen_scenario(rng, self.focus, client, variant=i // 4)
            cid = "%s%d" % (self.focus[:2], i)
            self.scen[cid] = sc
            out.append(sc.line(cid))
        return out

    def run(self, cases, pid, tier):
        # real-time scenarios: run in parallel (each case mostly sleeps), no model side
        impl = run_net_parallel(cases)
        # timing-only mismatches are retried twice before they count
        fails = []
        retried = 0
        transient = 0
        hist = {}
        samples = []
        nontriv = 0
        for line in cases:
            cid = line.split(" ", 1)[0]
            i = impl.get(cid, "MISSING")
            why = self.oracle(line, i, None, pid)
            tries = 0
            while why and ("timing" in why or "transmission" in why) and tries < 2:
                tries += 1
                retried += 1
                i = run_net_parallel([line]).get(cid, "MISSING")
                why = self.oracle(line, i, None, pid)
            if why and tries == 0:
                # confirmation run, alone on the loopback: scenarios run 12 at a time on ephemeral ports, and a late
                # datagram of a finished scenario can reach a socket that reuses its port; a deterministic failure
                # fails again, cross-talk does not
                transient += 1
                i2 = run_net_parallel([line], width=1).get(cid, "MISSING")
                why2 = self.oracle(line, i2, None, pid)
                if why2:
                    transient -= 1
                    i, why = i2, why2
                else:
                    i, why = i2, None
            if why:
                sc = self.scen.get(cid)
                k = "%s:%s" % (sc.client if sc else "?", why[:40])
                fails.append({"stream": self.name, "case": line, "observed": i[:900], "expected": "see why", "why": "[%s client] %s" % (sc.client if sc else "?", why)})
            c = self.classify(line, i)
            hist[c] = hist.get(c, 0) + 1
            if "ok:" in i or "err:Timeout" in i:
                nontriv += 1
            if len(samples) < 3:
                samples.append({"case": line.split(" ", 1)[1][:300], "impl": i[:300]})
        res = {"evaluations": len(cases), "distinct_nontrivial": nontriv, "rule": self.rule, "samples": samples, "histogram": hist,
               "disagreements": [], "failures": fails, "timing_retries": retried, "not_reproduced_alone": transient, "model_impl_agree": len(cases)}
        if self.focus in ("timing", "wire"):
            self.timed_model_side(cases, tier, res)
        return res

    def timed_model_side(self, cases, tier, res):
        """the extracted timed machines (Timed.v: the whole API call — refusals, prepare_message, retry loop, TCP
        fallback, TCP reads of both client families, exact timers) on the very scenarios the real clients just ran,
        and (timing) on random scenarios with arrivals on and around the attempt / lifetime boundaries (no network):
        the bytes of every transmission and of the TCP write, transmissions, exchanges, result and the end of the
        call must be what the code-blind expectation says — which the real clients were just held to"""
        import random as _r
        lines, info = [], {}
        for line in cases:
            cid = line.split(" ", 1)[0]
            sc = self.scen.get(cid)
            if sc is None or len(sc.queries) != 1:
                continue
            ml = NG.timed_model_line("m" + cid, sc, sc.queries[0])
            if ml:
                lines.append(ml)
                info["m" + cid] = (sc, line)
        rng = _r.Random(len(cases) * 7919 + int(os.environ.get("VERIF_SEED", "20260930")))
        for i in range((600 if tier == "quick" else 6000) if self.focus == "timing" else 0):
            sc = NG.gen_timed_random(rng, NG.CLIENTS[i % 4])
            ml = NG.timed_model_line("r%d" % i, sc, sc.queries[0])
            if ml:
                lines.append(ml)
                info["r%d" % i] = (sc, sc.line("r%d" % i))
        model = C.run_model(lines)
        dis, kinds = [], {}
        for cid, (sc, line) in info.items():
            m = model.get(cid, "MISSING")
            why = NG.timed_model_vs_oracle(sc, sc.queries[0], m, wire_only=(self.focus == "wire"))
            k = (m.split(" T=")[0].split("EV=")[-1] + " " + re.sub(r"^ok:.*", "ok", m.split(" R=")[-1]))[:40]
            kinds[k] = kinds.get(k, 0) + 1
            if why:
                dis.append({"stream": self.name, "case": line, "model": m[:300], "why": "[%s machine] timed model vs expectation: %s" % (sc.client, why)})
        res["timed_model_cases"] = len(info)
        res["timed_model_histogram"] = kinds
        res["evaluations"] += len(info)
        res["disagreements"] += dis
        res["model_impl_agree"] = res["evaluations"] - len(dis)

    def classify(self, line, impl):
        sc = self.scen.get(line.split(" ", 1)[0])
        m = re.search(r"Q0=([a-z]+:?[A-Za-z]*)", impl)
        return "%s:%s" % (sc.client if sc else "?", m.group(1) if m else impl[:10])

    def oracle(self, line, impl, spec, pid):
        if impl.startswith(ABNORMAL) or "PANIC" in impl:
            return "implementation " + impl[:60]
        cid = line.split(" ", 1)[0]
        sc = self.scen.get(cid)
        if sc is None:
            return None
        if "new=err" in impl:
            return "client construction failed: " + impl[:80]
        res, udp, tcp = parse_net(impl)
        t_base = None
        for k, q in enumerate(sc.queries):
            if k not in res:
                return "no result for query %d" % k
            r, dur = res[k]
            e = NG.expect_query(sc, q)
            myudp = [(t, b) for (qq, t, b) in udp if qq == k]
            mytcp = [(t, b) for (qq, t, b) in tcp if qq == k]
            if q.drop is not None:
                if r != "dropped":
                    return "query %d was to be dropped after %d ms, got %s" % (k, q.drop, r[:60])
                continue
            # ---- refused names / short buffers: an error before anything is sent
            if e["kind"] == "err:name":
                if not (r.startswith("err:DomainName") or (q.kind == "raw" and sc.buf < 512 and r == "err:BufferTooShort(512)")):
                    return "query %d: invalid name %r must be refused, got %s" % (k, q.name, r[:80])
                if myudp or mytcp:
                    return "query %d: invalid name but %d datagram(s)/%d connection(s) were sent" % (k, len(myudp), len(mytcp))
                continue
            if e["kind"] == "err:BufferTooShort(512)":
                if r != e["kind"] or myudp or mytcp:
                    return "query %d: buffer < 512 must be refused before sending, got %s (%d sent)" % (k, r[:60], len(myudp))
                continue
            # ---- what was put on the wire (C11)
            want_q = NG.expected_query(q.name, q.qtype, q.qclass, sc.rd, sc.edns, sc.buf if q.kind == "raw" else 65535)
            ids = set()
            for (t, b) in myudp:
                ids.add(b[:2])
                if b[2:] != want_q[2:]:
                    return "query %d: datagram on the wire differs from the request: got %s want ....%s" % (k, b.hex()[:120], want_q.hex()[4:120])
            for (t, b) in mytcp:
                if len(b) < 4 or int.from_bytes(b[:2], "big") != len(b) - 2:
                    return "query %d: TCP length prefix %s does not match %d message bytes" % (k, b[:2].hex(), len(b) - 2)
                ids.add(b[2:4])
                if b[4:] != want_q[2:]:
                    return "query %d: TCP message differs from the request: %s" % (k, b.hex()[:120])
            if len(ids) > 1:
                return "query %d: retransmissions / TCP fallback changed the message id: %s" % (k, sorted(x.hex() for x in ids))
            qid = next(iter(ids)) if ids else None
            # ---- transport strategy (C13)
            if sc.strategy.startswith("tcp") and myudp:
                return "query %d: TCP-only strategy sent %d datagram(s)" % (k, len(myudp))
            if sc.strategy.startswith("notcp") and mytcp:
                return "query %d: UDP-only strategy opened %d TCP connection(s)" % (k, len(mytcp))
            if len(mytcp) != e["tcp"]:
                return "query %d: expected %d TCP connection(s), saw %d (result %s)" % (k, e["tcp"], len(mytcp), r[:60])
            # ---- result
            rr = q.kind != "raw"
            if e["kind"] == "ok":
                payload = e.get("payload")
                if e.get("echo"):
                    payload = myudp[0][1] if myudp else b""
                if rr:
                    want = self.rr_expect(q, payload, e)
                    if r != want:
                        return "query %d: typed query returned %s, record-set extraction of the accepted bytes gives %s" % (k, r[:100], want[:100])
                else:
                    m = re.match(r"ok:(\d+):([0-9a-f-]+)$", r)
                    if not m:
                        return "query %d: expected the accepted response (%d bytes), got %s" % (k, len(payload), r[:80])
                    got = bytes.fromhex(m.group(2)) if m.group(2) != "-" else b""
                    if int(m.group(1)) != len(payload) or got[2:] != payload[2:]:
                        return "query %d: returned bytes are not exactly the accepted response: got %s want ....%s" % (k, got.hex()[:140], payload.hex()[4:140])
                    if qid is not None and len(got) >= 2 and got[:2] != qid:
                        return "query %d: returned a response with id %s, query id was %s" % (k, got[:2].hex(), qid.hex())
            else:
                want = e["kind"]
                if rr and want.startswith("err:BufferTooShort(") and False:
                    pass
                if r != want:
                    return "query %d: expected %s, got %s" % (k, want, r[:100])
            # ---- retransmission schedule and lifetime (C15)
            if not sc.strategy.startswith("tcp") and e["sends"] is not None:
                if len(myudp) != e["sends"]:
                    return "query %d: expected %d transmission(s), saw %d (timing)" % (k, e["sends"], len(myudp))
                if myudp and sc.qt is not None:
                    t0 = myudp[0][0]
                    for i, (t, b) in enumerate(myudp):
                        if abs((t - t0) - i * sc.qt) > self.TOL:
                            return "query %d: transmission %d at +%d ms, expected +%d ms (timing)" % (k, i, t - t0, i * sc.qt)
            if dur > sc.life + self.SLACK:
                return "query %d: call lasted %d ms, lifetime is %d ms (timing)" % (k, dur, sc.life)
            if e["kind"] == "err:Timeout" and dur < sc.life - self.TOL:
                return "query %d: Timeout reported after %d ms, lifetime is %d ms (timing)" % (k, dur, sc.life)
        return None

    @staticmethod
    def rr_expect(q, payload, e):
        """record-set extraction of the accepted bytes, from the message semantics"""
        if e.get("echo"):
            return "err:BadMessageType(false)"
        if e.get("what") == "resplie":
            return "err:EndOfBuffer"
        flags = int.from_bytes(payload[2:4], "big")
        if flags & 0x0200:
            return "err:MessageTruncated"
        want_ty = int(q.kind[2:])
        ans_ty = q.qtype if q.qtype in (28, 16) else 1
        qn = payload[12:12 + len(NG.qname_wire(q.name))]
        labels = []
        p = 0
        while qn[p]:
            labels.append(qn[p + 1:p + 1 + qn[p]])
            p += 1 + qn[p]
        text = (b"".join(l + b"." for l in labels) or b".").hex()
        if ans_ty != want_ty:
            return "err:NoAnswer"
        return "ok:RS(%s,%d,3600,%d)" % (text, q.qclass, 2 if e.get("what") == "resp2" else 1)


def run_net_parallel(cases, width=12):
    """net cases are real-time: run each in its own worker process, `width` at a time"""
    import subprocess, threading
    out = {}
    lock = threading.Lock()
    it = iter(cases)

    def work():
        while True:
            with lock:
                line = next(it, None)
            if line is None:
                return
            cid = line.split(" ", 1)[0]
            try:
                p = subprocess.run([C.HARNESS_BIN, "worker"], input=line + "\n", capture_output=True, text=True, timeout=40)
                r = [l for l in p.stdout.splitlines() if l.startswith("R ")]
                res = r[0].split(" ", 2)[2] if r else ("CRASH(rc=%s)" % p.returncode)
            except subprocess.TimeoutExpired:
                res = "HANG"
            with lock:
                out[cid] = res
    ts = [threading.Thread(target=work) for _ in range(width)]
    for t in ts:
        t.start()
    for t in ts:
        t.join()
    return out


def net_stream(nm, focus_, rule_, qn, tn):
    cls = type("Net_" + nm, (Net,), {"name": nm, "focus": focus_, "rule": rule_, "quick_n": qn, "thorough_n": tn})
    return cls()


STREAMS.update({
    "netwire": net_stream("netwire", "wire", "one query per scenario: names from the nametext grammar (valid, max length, invalid), any type/class, RD, EDNS off/on x version x payload {512,1232,4096,65535}, caller buffer {100,511,512,513,1232,4096}, UDP and TCP-only; the scripted loopback server records every datagram and TCP byte. 4 clients round-robin. MODEL SIDE: the extracted whole-call machine (TimedApi.v) on the same scenarios: refusals before anything is sent and the exact bytes of every datagram / of the TCP write vs the RFC layout.", 120, 2400),
    "udpfilter": net_stream("udpfilter", "udpfilter", "before the genuine response the server sends 0..12 datagrams of 14 non-matching kinds (empty, 5 and 11 bytes, random, id+1, id byte-swapped, one letter off, wrong type, wrong class, QDCOUNT 0/2, truncated question, header only, self-pointer name) 8 ms apart, then a matching one (genuine, case-flipped question, echoed query) or none, then more junk. 4 clients.", 96, 2000),
    "strategy": net_stream("strategy", "strategy", "3 strategies x {untruncated, truncated} UDP answers preceded by 0-4 ignored datagrams x TCP answers (whole, segmented, with trailing bytes) x 4 clients; the server records datagrams and TCP connections; every client also gets untruncated answers of exactly buf, buf-1 and more than buf octets (no TCP) and truncated answers with RCODE 1/2/3/5/11/15 (TCP under udp, returned as is under notcp).", 96, 1600),
    "tcpframe": net_stream("tcpframe", "tcpframe", "TCP-only: prefix+body split at 1-6 random points with 3-8 ms gaps, early close at 0,1,2,3,half,N,N+1,N+2 bytes, announced length around the caller buffer (buf-1, buf, buf+1, 65535), padded bodies at the buffer boundary, trailing garbage, zero-length body, caller buffers of 65536/66000/70000 octets x 4 clients.", 96, 2000),
    "timing": net_stream("timing", "timing", "query_timeout 300 ms / none, lifetime 1050 ms: silence, answer after 1-3 timeouts, junk every 25 ms across whole attempts (then answer or silence), TCP stall after 0/1/5 bytes, TCP drip at 15/60 ms per byte x 4 clients; transmissions must come at multiples of the timeout (+-130 ms), identical, and the call must end by lifetime+250 ms; after 1-2 silent attempts a truncated answer then a TCP server that stalls before, inside or after the length prefix or accepts late; timing-only mismatches are a first prefix byte that arrives late and then nothing; a 450 ms pause (longer than query_timeout, inside the lifetime) after the prefix and mid-body; retried twice. MODEL SIDE: the extracted timed machines (Timed.v/TimedApi.v, exact timers) on the same scenarios and on 600 (thorough 6000) random scenarios with arrivals on and around the attempt/lifetime boundaries and TCP replies that trickle, pause or stall: bytes on the wire, transmissions, exchanges, result and end instant must equal the code-blind expectation exactly.", 96, 864),
    "history": net_stream("history", "history", "2-6 queries on one client object: raw and typed (A/AAAA/TXT), answered, timed out, refused for a bad name, truncated with oversized/short TCP answers, a malformed datagram followed by a large answer, async queries dropped mid-flight, with late responses to earlier queries delivered during later ones; each query must behave as on a fresh client; the same question asked three times with header-only / clipped / 11-octet / empty datagrams carrying the right id before the answer (stale bytes of the earlier answer must not complete them). 4 clients.", 64, 800),
})


class NetModel(Net):
    """three-way: the four real clients, the extracted Coq client model (Client.v: datagram filter,
    strategy, TCP framing composed into one raw query) and a code-blind RFC filter written in the
    checker, on the very same datagrams and TCP segments."""
    name = "clientmodel"
    focus = "xmodel"
    quick_n = 120
    thorough_n = 2400
    rule = ("one raw query per scenario; strategy udp/notcp/tcp; the server delivers 0-4 datagrams 40 ms apart, each a genuine response "
            "with 0-3 of 14 mutations (id bit, QDCOUNT, name octet incl. case and length octets, type/class bit, truncation at every "
            "boundary, flag bits incl. TC, other counts, padding beyond the caller buffer, first label + pointer into the header, pointer "
            "to a zero octet, doubled question, random bytes, extra label, dropped label), optionally followed by the genuine response; the "
            "TCP side serves a checker-chosen byte stream (length prefix true or lying, body 0..buf, trailing bytes, early end) in 1-6 "
            "segments. The id is the client's own (read from the wire). Compared: events (UDP/TCP used) and result of model vs "
            "implementation vs code-blind filter+framing. 4 clients round-robin. Non-trivial: a datagram or stream was accepted or the call timed out.")

    def spec_expect(self, sc, q, qid):
        """code-blind: what a correct client returns"""
        def tcp():
            mode = q.tcp[1].split(":")
            stream = b"".join(bytes.fromhex(x) for x in mode[2].split(".") if x != "-")
            if len(stream) < 2:
                return "err:IoError(UnexpectedEof)"
            n = int.from_bytes(stream[:2], "big")
            if n > sc.buf:
                return "err:BufferTooShort(%d)" % n
            if len(stream) < 2 + n:
                return "err:IoError(UnexpectedEof)"
            return "ok:%d:%s" % (n, G.hx(stream[2:2 + n]))
        if sc.strategy == "tcp":
            return "T " + tcp()
        for (_, what) in q.udp[0]:
            d = bytearray(bytes.fromhex(what[1:]) if what[1:] != "-" else b"")
            for i in range(min(2, len(d))):
                d[i] ^= qid[i]
            d = bytes(d[:sc.buf])
            fl = NG.spec_accept(d, qid, q.name, q.qtype, q.qclass)
            if fl is not None:
                if (fl & 0x0200) and sc.strategy == "udp":
                    return "UT " + tcp()
                return "U ok:%d:%s" % (len(d), G.hx(d))
        return "U err:Timeout"

    def run(self, cases, pid, tier):
        res = self.run_once(cases, run_net_parallel(cases))
        bad = set(f["case"].split(" ", 1)[0] for f in res["failures"] + res["disagreements"])
        res["not_reproduced_alone"] = 0
        if bad and len(bad) <= 80:
            # confirmation run of the failing cases, one at a time: scenarios run 12 at a time on ephemeral ports,
            # and a late datagram of a finished scenario can reach a socket that reuses its port; a deterministic
            # failure fails again, cross-talk does not
            again = [l for l in cases if l.split(" ", 1)[0] in bad]
            res2 = self.run_once(again, run_net_parallel(again, width=1))
            bad2 = set(f["case"].split(" ", 1)[0] for f in res2["failures"] + res2["disagreements"])
            res["failures"] = [f for f in res2["failures"]]
            res["disagreements"] = [d for d in res2["disagreements"]]
            res["not_reproduced_alone"] = len(bad - bad2)
            res["model_impl_agree"] = res["evaluations"] - len(res["disagreements"])
        return res

    def run_once(self, cases, impl):
        fails, hist, samples, nontriv = [], {}, [], 0
        mlines, info = [], {}
        for line in cases:
            cid = line.split(" ", 1)[0]
            sc = self.scen[cid]
            q = sc.queries[0]
            i = impl.get(cid, "MISSING")
            if i.startswith(ABNORMAL) or "PANIC" in i or "new=err" in i or i == "MISSING":
                fails.append({"stream": self.name, "case": line, "observed": i[:300], "expected": "a result", "why": "[%s client] implementation %s" % (sc.client, i[:80])})
                continue
            res, udp, tcp = parse_net(i)
            r = res.get(0, ("?", 0))[0]
            wire = [b for (_, _, b) in udp] + [b[2:] for (_, _, b) in tcp]
            ids = set(b[:2] for b in wire if len(b) >= 2)
            if len(ids) != 1:
                fails.append({"stream": self.name, "case": line, "observed": i[:300], "expected": "one message id on the wire", "why": "[%s client] %d different ids on the wire" % (sc.client, len(ids))})
                continue
            qid = next(iter(ids))
            ev = ("U" if udp else "") + ("T" if tcp else "")
            observed = "%s %s" % (ev, r)
            ds = []
            for (_, what) in q.udp[0]:
                d = bytearray(bytes.fromhex(what[1:]) if what[1:] != "-" else b"")
                for k in range(min(2, len(d))):
                    d[k] ^= qid[k]
                ds.append(G.hx(d))
            mode = q.tcp[1].split(":")
            segs = [x for x in mode[2].split(".") if x != "-"]
            mlines.append("%s xq %s %s %d %s %d %d %d %s %s" % (cid, sc.client, sc.strategy, int.from_bytes(qid, "big"), G.hx(q.name), q.qtype, q.qclass, sc.buf,
                                                              "/".join(ds) or "-", "/".join(segs) or "-"))
            info[cid] = (line, sc, observed, self.spec_expect(sc, q, qid))
        model = C.run_model(mlines) if mlines else {}
        dis = []
        for cid, (line, sc, observed, spec) in info.items():
            m = model.get(cid, "MISSING")
            c = "%s:%s" % (sc.client, observed.split(":")[0])
            hist[c] = hist.get(c, 0) + 1
            if "ok:" in observed or "Timeout" in observed:
                nontriv += 1
            if len(samples) < 3:
                samples.append({"case": line.split(" ", 1)[1][:300], "impl": observed[:200], "model": m[:200]})
            if m != observed:
                dis.append({"stream": self.name, "case": line, "model": m[:600], "impl": observed[:600]})
            if spec != observed:
                fails.append({"stream": self.name, "case": line, "observed": observed[:600], "expected": spec[:600],
                              "why": "[%s client] returned %s; a correct client (id + single matching question, strategy, length-prefix framing) returns %s" % (sc.client, observed[:120], spec[:120])})
        return {"evaluations": len(cases), "distinct_nontrivial": nontriv, "rule": self.rule, "samples": samples, "histogram": hist,
                "disagreements": dis, "failures": fails, "model_impl_agree": len(info) - len(dis)}


STREAMS.update({"clientmodel": NetModel()})


# ------------------------------------------------------------------------------- send_assert (C19)
class SendAssert(Stream):
    """static Send/Sync assertions compiled against the current tree"""
    name = "sendassert"
    rule = ("69 generated programs (functions of send_assert/src/lib.rs), each moving a client value or a pending query to another "
            "thread under a `T: Send (+ Sync) (+ 'static)` bound: the four client types and ClientConfig Send+Sync; for tokio, "
            "async-std and smol the futures of Client::new, query_raw (borrowed and 'static arguments), query_rrset::<D> for all 17 "
            "record-data types, and a task body owning the client; the blocking client moved and shared. `cargo check` against /repo "
            "with the four net features must accept every one. Non-trivial: the program mentions a future. Distinct: by function.")

    def generate(self, rng, tier, pid):
        src = open(os.path.join(C.VERIF, "send_assert", "src", "lib.rs")).read()
        self.fns = re.findall(r"^fn (\w+)", src, re.M)
        return ["sa%d check %s" % (i, f) for i, f in enumerate(self.fns) if not f.startswith("is_")]

    def run(self, cases, pid, tier):
        import shutil
        d = os.path.join(C.VERIF, "send_assert")
        try:
            shutil.copy(os.path.join(C.REPO, "Cargo.lock"), os.path.join(d, "Cargo.lock"))
        except OSError:
            pass
        rc, out = C.run(["cargo", "check", "--offline", "-j%d" % C.NCPU, "--message-format=short"], cwd=d, timeout=900,
                        env={"CARGO_TARGET_DIR": os.path.join(C.BUILD, "send-assert-target")})
        fails = []
        if rc != 0:
            # which programs were rejected: map error lines to the enclosing function
            src = open(os.path.join(d, "src", "lib.rs")).read().splitlines()
            bad = {}
            for m in re.finditer(r"src/lib\.rs:(\d+):\d+: error(?:\[(E\d+)\])?: ([^\n]*)", out):
                ln = int(m.group(1))
                fn = "?"
                for k in range(ln - 1, -1, -1):
                    mm = re.match(r"fn (\w+)", src[k]) if k < len(src) else None
                    if mm:
                        fn = mm.group(1)
                        break
                bad.setdefault(fn, m.group(3))
            if not bad:
                bad["(crate does not build)"] = out[-400:]
            for fn, msg in bad.items():
                fails.append({"stream": self.name, "case": "check %s" % fn, "observed": "rustc: " + msg[:300],
                              "expected": "accepted by rustc", "why": "program `%s` is rejected by rustc: %s" % (fn, msg[:200])})
        nontriv = len([c for c in cases if "query" in c or "constructor" in c or "task" in c])
        return {"evaluations": len(cases), "distinct_nontrivial": nontriv, "rule": self.rule,
                "samples": [{"program": c.split(" ", 2)[2]} for c in cases[:4]], "histogram": {"accepted": len(cases) - len(fails), "rejected": len(fails)},
                "disagreements": [], "failures": fails, "model_impl_agree": len(cases)}


STREAMS.update({"sendassert": SendAssert()})
