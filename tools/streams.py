"""streams.py — correspondence streams: generator + both executions + comparison + property oracle.

A stream result is a dict with: evaluations, distinct_nontrivial, rule, samples, histogram,
disagreements (model != implementation: a broken tie, not yet a violation) and failures (inputs on
which the *implementation's* observable behaviour contradicts the code-blind specification: the
replay of a real violation)."""
import os, json, glob, re, hashlib
import common as C
import gen as G

TRUSTED_BASE = [
    "Coq 8.16.1 kernel (coqc); vm_compute used in finite-sweep proofs; no native_compute",
    "no axioms: every property theorem prints 'Closed under the global context'",
    "tools/translate.py (Rust expression -> Gallina leaf translator) for Gen*.v",
    "extraction with ExtrOcamlBasic only (bool/option/unit/list/prod/sumbool/sumor; andb/orb inlined) + ocaml/driver.ml glue",
    "hand-written model skeleton tied to the crate by differential execution only",
    "Rust harness (harness/), std/tokio/async-std/smol/arrayvec/OS sockets are observed, not modelled",
]


def parse_kv(s):
    """'RH=ok:.. RI=..' -> dict"""
    d = {}
    for part in s.split(" "):
        if "=" in part:
            k, v = part.split("=", 1)
            d[k] = v
    return d


def corpus_cases(sname):
    out = []
    for p in sorted(glob.glob(os.path.join(C.VERIF, "corpus", sname, "*.txt"))):
        base = os.path.basename(p)[:-4]
        for i, l in enumerate(open(p)):
            l = l.strip()
            if l and not l.startswith("#"):
                # corpus lines are `<op> <args>`; ids are assigned here
                out.append("k_%s_%d %s" % (base, i, l))
    return out


def load_replay_cases(path, sname):
    j = json.load(open(path))
    if j.get("stream") == sname and "case" in j:
        return ["r0 " + j["case"].split(" ", 1)[1]]
    return []


def match_known(known, pid, f):
    for k in known.get("known", []):
        if k["property"] == pid and k["stream"] == f["stream"] and re.search(k["pattern"], f["why"] + " | " + f["case"]):
            return k
    return None


def shrink(f):
    return f


class Stream:
    name = "?"
    rule = ""

    def generate(self, rng, tier, pid):
        raise NotImplementedError

    def oracle(self, line, impl, spec, pid):
        """returns None or a reason string"""
        return None

    def nontrivial(self, line, impl):
        return True

    def classify(self, line, impl):
        return "all"

    def run(self, cases, pid, tier):
        model, specs = run_model_with_spec(cases)
        impl = C.run_impl(cases)
        dis = []
        fails = []
        hist = {}
        seen = set()
        nontriv = 0
        samples = []
        for line in cases:
            cid = line.split(" ", 1)[0]
            m = model.get(cid, "MISSING")
            i = impl.get(cid, "MISSING")
            body = line.split(" ", 1)[1]
            if m != i:
                dis.append({"case": line, "model": m[:400], "impl": i[:400]})
            why = self.oracle(line, i, specs.get(cid), pid)
            if why:
                fails.append({"stream": self.name, "case": line, "observed": i[:600], "expected": (specs.get(cid) or "")[:600], "why": why})
            k = self.classify(line, i)
            hist[k] = hist.get(k, 0) + 1
            h = hashlib.sha1(body.encode()).digest()
            if h not in seen:
                seen.add(h)
                if self.nontrivial(line, i):
                    nontriv += 1
                    if len(samples) < 4:
                        samples.append({"case": body[:300], "impl": i[:300]})
        return {"evaluations": len(cases), "distinct_nontrivial": nontriv, "rule": self.rule, "samples": samples,
                "histogram": hist, "disagreements": dis, "failures": fails,
                "model_impl_agree": len(cases) - len(dis)}


def run_model_with_spec(cases):
    """driver prints R lines (model) and S lines (spec)"""
    import subprocess
    n = max(1, min(C.NCPU, (len(cases) + 49) // 50))
    shards = [cases[i::n] for i in range(n)]
    procs = []
    for sh in shards:
        p = subprocess.Popen([C.DRIVER_BIN], stdin=subprocess.PIPE, stdout=subprocess.PIPE, text=True)
        procs.append((p, sh))
    import threading
    outs = [None] * len(procs)

    def work(k):
        p, sh = procs[k]
        outs[k] = p.communicate("\n".join(sh) + "\n")[0]
    ts = [threading.Thread(target=work, args=(k,)) for k in range(len(procs))]
    for t in ts:
        t.start()
    for t in ts:
        t.join()
    model, spec = {}, {}
    for o in outs:
        for l in (o or "").splitlines():
            if l.startswith("R "):
                a = l.split(" ", 2)
                model[a[1]] = a[2] if len(a) > 2 else ""
            elif l.startswith("S "):
                a = l.split(" ", 2)
                spec[a[1]] = a[2] if len(a) > 2 else ""
    return model, spec


# ------------------------------------------------------------------------------------- names
class Names(Stream):
    name = "names"
    rule = ("wire names built from fragments with pointer graphs (plain, backward pointers, targets at first_ptr+{-4..5}, "
            "chains of depth 1..40, loops, names of wire length 250..258, boundary bytes in labels, reserved label types, "
            "truncation, random bytes, a few 5-20 KB messages); each consumed four ways (Name, InlineName, skip, label "
            "iterator) + TryFrom<&NameRef>.  Non-trivial: the walk gets past the first octet (a label or pointer is "
            "processed).  Distinct: by (message bytes, position).")

    def generate(self, rng, tier, pid):
        n = 6000 if tier == "quick" else 200000
        cases, self.tags = G.gen_names(rng, n)
        cases += G.gen_names_big(rng, 12 if tier == "quick" else 200)
        return cases

    def classify(self, line, impl):
        d = parse_kv(impl)
        rh = d.get("RH", impl)
        if rh.startswith("ok:"):
            return "accepted"
        m = re.match(r"err:([A-Za-z]+)", rh)
        return m.group(1) if m else rh[:20]

    def nontrivial(self, line, impl):
        d = parse_kv(impl)
        rh = d.get("RH", "")
        return not (rh.startswith("err:EndOfBuffer") and d.get("LB", "").startswith("[]"))

    def oracle(self, line, impl, spec, pid):
        if spec is None:
            return None
        if impl.startswith(("CRASH", "HANG", "PANIC", "MISSING")):
            return "implementation did not return a value or an error: " + impl[:80]
        d = parse_kv(impl)
        sp = spec.split(" ")
        keys = ("RH", "RI", "SK", "TH", "TI")
        if sp[0] == "reject":
            for k in keys:
                if not d.get(k, "").startswith("err:"):
                    return "RFC expansion rejects the name (reason %s) but %s=%s" % (sp[1], k, d.get(k))
            if not re.search(r"\]err:", d.get("LB", "")):
                return "RFC expansion rejects the name (reason %s) but label iteration ended with %s" % (sp[1], d.get("LB"))
            return None
        # accept <resume> <valid> <wirelen> <text> [labels]
        resume, valid, wirelen, text, labels = sp[1], sp[2] == "1", int(sp[3]), sp[4], sp[5]
        if not valid:
            for k in keys:
                if not d.get(k, "").startswith("err:"):
                    return "a label violates the label rules but %s=%s" % (k, d.get(k))
            if not re.search(r"\]err:", d.get("LB", "")):
                return "a label violates the label rules but label iteration ended with %s" % d.get("LB")
            return None
        if d.get("SK") != "ok:" + resume:
            return "legal name: skip must resume at %s, got %s" % (resume, d.get("SK"))
        if d.get("LB") != labels + "none":
            return "legal name: label iteration must yield %s, got %s" % (labels, d.get("LB"))
        if wirelen <= 255:
            for k in ("RH", "RI"):
                if d.get(k) != "ok:%s:%s" % (text, resume):
                    return "legal name of %d octets: %s must be ok:%s:%s, got %s" % (wirelen, k, text, resume, d.get(k))
            for k in ("TH", "TI"):
                if d.get(k) != "ok:%s" % text:
                    return "legal name: %s must be ok:%s, got %s" % (k, text, d.get(k))
        else:
            for k in ("RH", "RI", "TH", "TI"):
                if not d.get(k, "").startswith("err:"):
                    return "name of %d octets (> 255) must be rejected, got %s=%s" % (wirelen, k, d.get(k))
        return None


STREAMS = {"names": Names()}
