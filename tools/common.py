"""common.py — build steps, process supervision and result comparison shared by all checks."""
import os, sys, json, subprocess, time, fcntl, hashlib, re, shutil, signal

VERIF = os.path.abspath(os.path.join(os.path.dirname(__file__), ".."))
REPO = os.environ.get("RSDNS_REPO", "/repo")
BUILD = os.path.join(VERIF, "build")
COQ = os.path.join(VERIF, "coq")
HARNESS_TARGET = os.path.join(BUILD, "harness-target")
HARNESS_BIN = os.path.join(HARNESS_TARGET, "debug", "rsdns-verif-harness")
HARNESS_BIN_REL = os.path.join(HARNESS_TARGET, "release", "rsdns-verif-harness")
DRIVER_DIR = os.path.join(BUILD, "ocaml")
DRIVER_BIN = os.path.join(DRIVER_DIR, "driver")
NCPU = 16


def log(*a):
    print("[check]", *a, file=sys.stderr, flush=True)


class Lock:
    def __init__(self, name="build"):
        os.makedirs(BUILD, exist_ok=True)
        self.path = os.path.join(BUILD, name + ".lock")

    def __enter__(self):
        self.f = open(self.path, "w")
        fcntl.flock(self.f, fcntl.LOCK_EX)
        return self

    def __exit__(self, *a):
        fcntl.flock(self.f, fcntl.LOCK_UN)
        self.f.close()


def run(cmd, cwd=None, timeout=None, env=None, stdin=None):
    e = dict(os.environ)
    e["CARGO_NET_OFFLINE"] = "true"
    if env:
        e.update(env)
    try:
        p = subprocess.run(cmd, cwd=cwd, timeout=timeout, env=e, stdin=stdin,
                           stdout=subprocess.PIPE, stderr=subprocess.STDOUT, text=True, errors="replace")
        return p.returncode, p.stdout
    except subprocess.TimeoutExpired as ex:
        out = ex.stdout or ""
        if isinstance(out, bytes):
            out = out.decode(errors="replace")
        return 124, out + "\n[timeout]"


# ---------------------------------------------------------------------------------- build steps
def translate():
    """regenerate Gen*.v from /repo. returns (ok, misses(list of dict), report)"""
    rep = os.path.join(BUILD, "translate_report.json")
    os.makedirs(BUILD, exist_ok=True)
    rc, out = run([sys.executable, os.path.join(VERIF, "tools", "translate.py"), "--repo", REPO, "--report", rep])
    misses = [json.loads(l[5:]) for l in out.splitlines() if l.startswith("MISS ")]
    report = json.load(open(rep)) if os.path.exists(rep) else {}
    return rc == 0, misses, report


def coq_makefile():
    mk = os.path.join(COQ, "Makefile")
    cp = os.path.join(COQ, "_CoqProject")
    if not os.path.exists(mk) or os.path.getmtime(mk) < os.path.getmtime(cp):
        rc, out = run(["coq_makefile", "-f", "_CoqProject", "-o", "Makefile"], cwd=COQ)
        if rc != 0:
            raise RuntimeError("coq_makefile failed: " + out)


def coq_make(targets, timeout=1500):
    """make the given .vo targets (paths relative to coq/). returns (ok, log)"""
    coq_makefile()
    rc, out = run(["make", "-j%d" % NCPU] + targets, cwd=COQ, timeout=timeout)
    return rc == 0, out


def coq_first_error(out):
    m = re.search(r'File "([^"]+)", line (\d+), characters [^\n]*\n(Error:[^\n]*(?:\n[^\n]+){0,6})', out)
    if m:
        return {"file": m.group(1), "line": int(m.group(2)), "error": m.group(3)[:600]}
    return {"file": None, "line": None, "error": out[-600:]}


def build_driver():
    """extract + compile the OCaml model driver; keeps the previous binary if the model is broken"""
    ok, out = coq_make(["theories/Extract.vo"])
    if not ok:
        return False, "Extract.vo: " + json.dumps(coq_first_error(out))
    os.makedirs(DRIVER_DIR, exist_ok=True)
    src_ml = os.path.join(COQ, "model.ml")
    stamp = os.path.join(DRIVER_DIR, "stamp")
    h = hashlib.sha256()
    for p in (src_ml, os.path.join(COQ, "model.mli"), os.path.join(VERIF, "ocaml", "driver.ml")):
        h.update(open(p, "rb").read())
    dig = h.hexdigest()
    if os.path.exists(DRIVER_BIN) and os.path.exists(stamp) and open(stamp).read() == dig:
        return True, "cached"
    for f in ("model.ml", "model.mli"):
        shutil.copy(os.path.join(COQ, f), DRIVER_DIR)
    shutil.copy(os.path.join(VERIF, "ocaml", "driver.ml"), DRIVER_DIR)
    rc, out = run(["ocamlfind", "ocamlopt", "-O2", "-w", "-a", "model.mli", "model.ml", "driver.ml", "-o", "driver.new"],
                  cwd=DRIVER_DIR, timeout=600)
    if rc != 0:
        return False, "ocamlopt: " + out[-800:]
    os.replace(os.path.join(DRIVER_DIR, "driver.new"), DRIVER_BIN)
    open(stamp, "w").write(dig)
    json.dump(gen_hashes(), open(os.path.join(DRIVER_DIR, "gen_stamp.json"), "w"))
    return True, "built"


def gen_hashes():
    """sha256 of every regenerated leaf file (coq/theories/Gen*.v)"""
    import glob
    out = {}
    for f in glob.glob(os.path.join(COQ, "theories", "Gen*.v")):
        out[os.path.basename(f)[:-2]] = hashlib.sha256(open(f, "rb").read()).hexdigest()
    return out


GEN_REFERENCE = os.path.join(COQ, "gen_reference.json")


def changed_areas(misses=()):
    """leaf areas whose regenerated file differs from the reference (coq/gen_reference.json: the hashes of the
    Gen*.v files of the tree on which all proofs were last checked — written by tools/genref.py, committed),
    plus the areas with a point that no longer translates"""
    changed = set(m["area"] for m in misses)
    try:
        ref = json.load(open(GEN_REFERENCE))
    except (OSError, ValueError):
        return None          # no reference: nothing can be attributed
    cur = gen_hashes()
    changed |= set(a for a in set(cur) | set(ref) if ref.get(a) != cur.get(a))
    return changed


def driver_valid_for(areas):
    """the last good driver was extracted from leaf files; it is still the model of a property whose own
    leaf areas are byte-identical to the ones it was built from (another area may have stopped translating)"""
    try:
        old = json.load(open(os.path.join(DRIVER_DIR, "gen_stamp.json")))
    except (OSError, ValueError):
        return False
    cur = gen_hashes()
    return os.path.exists(DRIVER_BIN) and all(a in old and old[a] == cur.get(a) for a in areas)


def build_harness(release=False):
    """cargo build the harness against /repo's working tree (hooks on via .cargo/config.toml).
    Falls back to a build without the `hooks` feature if the hooked build fails."""
    hdir = os.path.join(VERIF, "harness")
    lock = os.path.join(hdir, "Cargo.lock")
    try:
        shutil.copy(os.path.join(REPO, "Cargo.lock"), lock)
    except OSError:
        pass
    cmd = ["cargo", "build", "--offline", "-j%d" % NCPU]
    if release:
        cmd.append("--release")
    env = {"CARGO_TARGET_DIR": HARNESS_TARGET}
    rc, out = run(cmd, cwd=hdir, timeout=1200, env=env)
    if rc == 0:
        return True, True, ""
    log("hooked harness build failed; retrying without hooks")
    rc2, out2 = run(cmd + ["--no-default-features"], cwd=hdir, timeout=1200, env=env)
    if rc2 == 0:
        return True, False, out[-1500:]
    return False, False, out[-3000:]


# --------------------------------------------------------------------------- running the two sides
def run_model(lines, timeout=600):
    """run the OCaml driver on case lines (sharded). returns dict id -> result string"""
    return _run_sharded([DRIVER_BIN], lines, timeout, supervise=False)


def run_impl(lines, timeout=600, release=False, per_case_timeout=3.0):
    binp = HARNESS_BIN_REL if release else HARNESS_BIN
    res = _run_sharded([binp, "worker"], lines, timeout, supervise=True, per_case_timeout=per_case_timeout)
    # a case that did not answer within per_case_timeout (microseconds are normal) is run again, alone, with
    # ten times the allowance before it is called a hang: on a machine loaded by other jobs a worker can be
    # descheduled for seconds; a real non-terminating loop still hangs
    hung = [l for l in lines if res.get(l.split(" ", 1)[0]) == "HANG"]
    if hung and len(hung) <= 40:
        def alone(l):
            return _run_sharded([binp, "worker"], [l], per_case_timeout * 10 + 30, supervise=True, per_case_timeout=per_case_timeout * 10)
        again = {}
        for l in hung[:3]:
            again.update(alone(l))
        if "HANG" not in again.values():          # the first three were the machine, not the code: confirm the rest too
            for l in hung[3:]:
                again.update(alone(l))
        res.update(again)
    return res


ABNORMAL_SEEN = {"n": 0}


def _run_sharded(cmd, lines, timeout, supervise, per_case_timeout=10.0):
    import threading
    n = max(1, min(NCPU, (len(lines) + 49) // 50))
    shards = [lines[i::n] for i in range(n)]
    ABNORMAL_SEEN["n"] = 0
    procs = [_Shard(cmd, sh, supervise, per_case_timeout) for sh in shards]
    deadline = time.time() + timeout
    ts = [threading.Thread(target=p.finish, args=(max(1.0, deadline - time.time()),)) for p in procs]
    for t in ts:
        t.start()
    for t in ts:
        t.join()
    res = {}
    for p in procs:
        res.update(p.results)
    return res


class _Shard:
    """one worker process fed a batch; on crash/hang the pending case gets CRASH/HANG and a new
    worker continues with the remaining cases.  Output is read from the raw fd (select on a
    buffered file object would miss lines already sitting in Python's buffer)."""

    def __init__(self, cmd, lines, supervise, per_case_timeout):
        self.cmd, self.lines, self.supervise = cmd, list(lines), supervise
        self.per_case_timeout = per_case_timeout
        self.results = {}
        self.start(self.lines)

    def start(self, lines):
        import threading
        self.pending_lines = lines
        self.p = subprocess.Popen(self.cmd, stdin=subprocess.PIPE, stdout=subprocess.PIPE, stderr=subprocess.DEVNULL)
        data = ("\n".join(lines) + "\n").encode()
        self.t = threading.Thread(target=self._feed, args=(data,), daemon=True)
        self.t.start()

    def _feed(self, data):
        try:
            self.p.stdin.write(data)
            self.p.stdin.close()
        except (BrokenPipeError, OSError, ValueError):
            pass

    def finish(self, budget):
        import select
        deadline = time.time() + budget
        while True:
            fd = self.p.stdout.fileno()
            buf = b""
            begun = None
            begun_at = time.time()
            hang = False
            eof = False
            while not eof:
                now = time.time()
                if self.supervise and begun is not None:
                    wait = max(0.0, min(self.per_case_timeout - (now - begun_at), deadline - now))
                else:
                    wait = max(0.0, min(5.0, deadline - now))
                r, _, _ = select.select([fd], [], [], wait)
                if r:
                    chunk = os.read(fd, 1 << 16)
                    if not chunk:
                        eof = True
                    buf += chunk
                    while b"\n" in buf:
                        line, buf = buf.split(b"\n", 1)
                        line = line.decode(errors="replace")
                        if line.startswith("B "):
                            begun = line[2:]
                            begun_at = time.time()
                        elif line.startswith("R "):
                            parts = line.split(" ", 2)
                            self.results[parts[1]] = parts[2] if len(parts) > 2 else ""
                            begun = None
                    continue
                now = time.time()
                if self.supervise and begun is not None and now - begun_at >= self.per_case_timeout:
                    hang = True
                    break
                if now >= deadline:
                    hang = True
                    break
            if hang:
                try:
                    self.p.kill()
                except OSError:
                    pass
                self.p.wait()
                if begun is None:
                    return
                self.results[begun] = "HANG"
            else:
                rc = self.p.wait()
                if begun is None:
                    return
                if not self.supervise:
                    self.results[begun] = "CRASH(rc=%s)" % rc
                    return
                if rc is not None and rc < 0:
                    try:
                        name = signal.Signals(-rc).name
                    except ValueError:
                        name = "sig%d" % -rc
                    self.results[begun] = "CRASH(%s)" % name
                else:
                    self.results[begun] = "CRASH(rc=%s)" % rc
            ABNORMAL_SEEN["n"] += 1
            if ABNORMAL_SEEN["n"] > 6:
                return   # enough crashing/hanging inputs collected; the remaining cases stay unreported (MISSING)
            # restart after the offending case
            ids = [l.split(" ", 1)[0] for l in self.pending_lines]
            try:
                k = ids.index(begun)
            except ValueError:
                return
            rest = self.pending_lines[k + 1:]
            if not rest or time.time() >= deadline:
                return
            self.start(rest)


def diff_results(cases, model, impl):
    """returns list of (id, line, model_result, impl_result) that differ"""
    out = []
    for line in cases:
        cid = line.split(" ", 1)[0]
        m = model.get(cid, "MISSING")
        i = impl.get(cid, "MISSING")
        if m != i:
            out.append((cid, line, m, i))
    return out
