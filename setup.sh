#!/bin/sh
# setup: build the whole Coq development, the extracted model driver and the Rust harness, offline.
set -e
cd "$(dirname "$0")"
export CARGO_NET_OFFLINE=true
python3 tools/translate.py || true
(cd coq && coq_makefile -f _CoqProject -o Makefile >/dev/null && timeout 3000 make -j16 >/dev/null 2>build_err.log || { tail -20 build_err.log; exit 1; })
python3 - <<'PY'
import sys; sys.path.insert(0, 'tools')
import common as C
with C.Lock():
    ok, msg = C.build_driver(); print('driver:', ok, msg[:200])
    okh, hooks, m = C.build_harness(); print('harness:', okh, 'hooks' if hooks else 'no-hooks', m[-300:])
    sys.exit(0 if ok and okh else 1)
PY
